// C07: a response depends only on its own request, not on earlier or concurrent ones.
//
// Fresh-server replay oracle. Generated histories of 2-40 requests (all HTTP transports, and
// websocket sessions for a subset) run against ONE long-lived handler.Server — sequentially on a
// locked OS thread (which maximises sync.Pool reuse in transport.POST) and with 16 concurrent
// clients. Afterwards every request is sent alone to a FRESHLY constructed server primed with
// exactly the automatic-persisted-query registrations that were observed before it (the one
// permitted memory), and status / Content-Type / body (parsed JSON, member order included) are
// compared. Resolvers are pure functions of their arguments and of their own request's operation
// context (echo exposes operationName, variables, extensions, headers, raw query).
//
// transport.POST's parameter pool is a package-level variable, i.e. shared by the long-lived and
// the fresh server. So the fresh answers are computed in a second phase, and before every fresh
// POST the pool is emptied with two runtime.GC() calls: a fresh answer can never be computed on a
// recycled object. For parallelism the work is spread over child processes (this binary
// re-executed), each running its histories strictly one after the other.
package main

import (
	"bufio"
	"context"
	"encoding/json"
	"fmt"
	"os"
	"os/exec"
	"runtime"
	"sort"
	"strconv"
	"strings"
	"sync"
	"sync/atomic"

	"verif/internal/ev"
	"verif/internal/sjson"
)

// ---------------------------------------------------------------------------------------------
// worker-side result collection (children print one JSON document; the parent merges)

type violation struct {
	Sig    string `json:"sig"`
	Detail any    `json:"detail"`
}

type result struct {
	mu         sync.Mutex
	Counts     map[string]int64           `json:"counts"`
	Distinct   map[string]map[string]bool `json:"distinct"`
	Violations []violation                `json:"violations"`
	Samples    []any                      `json:"samples"`
	Notes      []string                   `json:"inconclusive"`
	// Oracle: oracle key -> [sha of the fresh-server answer, short description of the request].
	// The parent cross-checks these between worker processes: a fresh server answering the same
	// request with the same registrations must say the same thing in every process, whatever
	// traffic that process saw before (catches state kept outside the server object).
	Oracle map[string][2]string `json:"oracle"`
}

var res = &result{Counts: map[string]int64{}, Distinct: map[string]map[string]bool{}, Oracle: map[string][2]string{}}

func (r *result) count(k string, n int64) {
	r.mu.Lock()
	r.Counts[k] += n
	r.mu.Unlock()
}

func (r *result) distinct(set, m string) {
	r.mu.Lock()
	if r.Distinct[set] == nil {
		r.Distinct[set] = map[string]bool{}
	}
	r.Distinct[set][m] = true
	r.mu.Unlock()
}

func (r *result) violate(sig string, d any) {
	r.mu.Lock()
	if len(r.Violations) < 40 {
		r.Violations = append(r.Violations, violation{sig, d})
	}
	r.Counts["violations_"+sig]++
	r.mu.Unlock()
}

// ---------------------------------------------------------------------------------------------
// oracle

var reqID atomic.Int64

var oracleCache = map[string]response{}

func regsKey(regs []registration) string {
	set := map[string]bool{}
	for _, r := range regs {
		set[r.Hash+"="+r.Text] = true
	}
	ks := make([]string, 0, len(set))
	for k := range set {
		ks = append(ks, k)
	}
	sort.Strings(ks)
	return sha(strings.Join(ks, "\x00"))
}

// fresh answers rq on a freshly constructed server primed with regs. Must only be called while
// nothing else runs in this process (phase 2).
func fresh(cache string, rq *request, regs []registration) response {
	key := cache + "|" + rq.key() + "|" + regsKey(regs)
	if r, ok := oracleCache[key]; ok {
		res.count("oracle_answers_reused", 1)
		oracleReuse++
		if oracleReuse%8 != 0 {
			return r
		}
		// every 8th reuse: compute the answer again, now, and demand the same answer
		again := freshNow(cache, rq, regs)
		res.count("oracle_answers_recomputed", 1)
		if d := diffResponses(again, r); d != "" {
			res.violate("fresh-server-answer-not-reproducible", map[string]any{"why": d, "request": rq, "first_answer": r, "later_answer": again,
				"meaning": "two freshly constructed servers answered the same lone request differently: state outside the server object"})
		}
		return r
	}
	r := freshNow(cache, rq, regs)
	// keep the heap small: the two GC cycles before every fresh POST scan it
	if len(oracleCache) >= 3000 {
		oracleCache = map[string]response{}
		res.count("oracle_cache_resets", 1)
	}
	oracleCache[key] = r
	if kh := sha(key); kh[0] < '4' { // a quarter of the answers is cross-checked between processes
		what := rq.Transport + " " + rq.Note + " " + rq.URL + " " + rq.Body
		if len(what) > 200 {
			what = what[:200]
		}
		res.Oracle[kh[:24]] = [2]string{sha(canon(r))[:24], what}
	}
	res.count("oracle_answers_computed", 1)
	return r
}

var oracleReuse int

func freshNow(cache string, rq *request, regs []registration) response {
	if rq.Transport == "post" {
		// empty transport.POST's package-level sync.Pool (primary -> victim -> gone)
		runtime.GC()
		runtime.GC()
		res.count("oracle_pool_purges", 1)
	}
	s := newServer(cache)
	for _, g := range regs {
		s.apq.inner.Add(context.Background(), g.Hash, g.Text)
	}
	r := s.do(rq, -1)
	s.close()
	return r
}

func diffResponses(got, want response) string {
	if got.Status != want.Status {
		return fmt.Sprintf("status %d, fresh server %d", got.Status, want.Status)
	}
	if got.CType != want.CType {
		return fmt.Sprintf("Content-Type %q, fresh server %q", got.CType, want.CType)
	}
	if len(got.Frames) != len(want.Frames) {
		return fmt.Sprintf("%d websocket frames, fresh server %d", len(got.Frames), len(want.Frames))
	}
	for i := range got.Frames {
		if got.Frames[i] != want.Frames[i] {
			return fmt.Sprintf("websocket frame %d: %s, fresh server: %s", i, got.Frames[i], want.Frames[i])
		}
	}
	if got.Body == want.Body {
		return ""
	}
	a, ea := sjson.Parse([]byte(got.Body))
	b, eb := sjson.Parse([]byte(want.Body))
	if ea != nil || eb != nil {
		return "bodies differ (not both JSON)"
	}
	if d := sjson.Diff(b, a, true, "body"); d != "" {
		return d
	}
	return ""
}

// opFrames: the frames of one operation id ("type|payload"), the id itself left out.
func opFrames(frames []string, id string) []string {
	var out []string
	for _, f := range frames {
		p := strings.SplitN(f, "|", 3)
		if len(p) == 3 && p[1] == id {
			out = append(out, p[0]+"|"+p[2])
		}
	}
	return out
}

func wsTrouble(r response) bool {
	if r.Status == -1 {
		return true
	}
	for _, f := range r.Frames {
		if f == "READ-END:error" {
			return true
		}
	}
	return false
}

type histRun struct {
	Mode     string `json:"mode"`
	Cache    string `json:"cache"`
	Seed     int64  `json:"seed"`
	MaxLen   int    `json:"max_len"`
	Tag      string `json:"tag"`
	WS       bool   `json:"ws"`
	reqs     []*request
	ids      []int64
	got      []response
	regsSeen []int // number of registrations of this client observed before request i
}

// judge compares every request of a finished history with the fresh-server answer.
func judge(h *histRun, myRegs func(upto int) []registration) {
	for i, rq := range h.reqs {
		want := fresh(h.Cache, rq, myRegs(i))
		res.count("requests_compared", 1)
		res.count("requests_"+rq.Transport, 1)
		if i > 0 {
			res.distinct("adjacent_pairs", h.reqs[i-1].key()[:14]+">"+rq.key()[:14])
		}
		res.distinct("wire_requests", rq.key()[:16])
		if rq.WS != nil {
			res.count("ws_sessions_compared", 1)
			if wsTrouble(h.got[i]) || wsTrouble(want) {
				// a dial / read timeout of the harness's own socket is not an observation of gqlgen
				res.count("ws_sessions_unusable_socket_trouble", 1)
				continue
			}
		}
		if rq.WS != nil && len(rq.WS.Ops) > 1 {
			// every operation of a connection is a request of its own: what it is answered must be
			// what the same operation alone, first on a fresh connection of a fresh server, gets
			for k, op := range rq.WS.Ops {
				alone := &request{Transport: "ws", WS: &wsSession{Subprotocol: rq.WS.Subprotocol, Ops: []wsOp{op}}, Note: "ws-op-alone"}
				wa := fresh(h.Cache, alone, myRegs(i))
				if wsTrouble(wa) {
					res.count("ws_sessions_unusable_socket_trouble", 1)
					continue
				}
				g, w := opFrames(h.got[i].Frames, fmt.Sprintf("op%d", k+1)), opFrames(wa.Frames, "op1")
				res.count("ws_operations_compared_alone", 1)
				if strings.Join(g, "\n") != strings.Join(w, "\n") {
					res.violate("ws-operation-differs-from-same-operation-alone", map[string]any{"why": fmt.Sprintf("operation %d of the connection is answered %v; alone on a fresh connection it is answered %v", k+1, g, w),
						"history": h, "index": i, "request": rq, "operation": k + 1})
				}
			}
		}
		if d := diffResponses(h.got[i], want); d != "" {
			sig := "response-differs-from-fresh-server:" + rq.Transport
			var prev *request
			if i > 0 {
				prev = h.reqs[i-1]
			}
			res.violate(sig, map[string]any{"why": d, "history": h, "index": i, "request": rq, "previous_request": prev,
				"long_lived_server": h.got[i], "fresh_server": want, "registrations_primed": myRegs(i)})
		}
	}
}

func harvest(s *server, mode string) {
	res.count("pool_reuse_"+mode, s.spy.reused.Load())
	res.count("pool_reuse", s.spy.reused.Load())
	res.count("post_requests_reaching_executor", s.spy.posts.Load())
	res.count("requests_reaching_executor", s.spy.total.Load())
	res.count("apq_registrations", int64(len(s.apq.regs)))
	res.count("apq_lookups_hit", s.apq.hits.Load())
	res.count("apq_lookups_miss", s.apq.miss.Load())
	if s.qc != nil {
		res.count("query_cache_hits", s.qc.hits.Load())
		res.count("query_cache_misses", s.qc.miss.Load())
	}
	res.count("recover_func_calls", s.recover.Load())
}

// runSequential: one history, one long-lived server, the calling goroutine's locked OS thread.
func runSequential(h *histRun) {
	h.reqs = genHistory(h.Seed, h.MaxLen, h.Tag, h.WS)
	s := newServer(h.Cache)
	runtime.LockOSThread()
	for _, rq := range h.reqs {
		id := reqID.Add(1)
		h.ids = append(h.ids, id)
		h.regsSeen = append(h.regsSeen, len(s.apq.regs))
		h.got = append(h.got, s.do(rq, id))
	}
	runtime.UnlockOSThread()
	regs := append([]registration(nil), s.apq.regs...)
	harvest(s, "sequential")
	s.close()
	judge(h, func(i int) []registration { return regs[:h.regsSeen[i]] })
	res.count("histories", 1)
	res.count("histories_sequential", 1)
	res.count("history_len_"+strconv.Itoa(len(h.reqs)/10*10)+"s", 1)
}

// runConcurrent: 16 clients, one long-lived server. Each client's APQ texts are unique to it, so
// the registrations that can precede one of its requests are its own earlier ones.
func runConcurrent(seed int64, cache string, maxLen int, hists int) {
	s := newServer(cache)
	const clients = 16
	all := make([][]*histRun, clients)
	for c := 0; c < clients; c++ {
		for k := 0; k < hists; k++ {
			h := &histRun{Mode: "concurrent16", Cache: cache, Seed: seed*1000 + int64(c*37+k), MaxLen: maxLen, Tag: fmt.Sprintf("c%dk%ds%d", c, k, seed), WS: c%8 == 0}
			h.reqs = genHistory(h.Seed, h.MaxLen, h.Tag, h.WS)
			all[c] = append(all[c], h)
		}
	}
	runtime.GOMAXPROCS(clients)
	var wg sync.WaitGroup
	for c := 0; c < clients; c++ {
		wg.Add(1)
		go func(c int) {
			defer wg.Done()
			for _, h := range all[c] {
				for _, rq := range h.reqs {
					id := reqID.Add(1)
					h.ids = append(h.ids, id)
					h.got = append(h.got, s.do(rq, id))
				}
			}
		}(c)
	}
	wg.Wait()
	runtime.GOMAXPROCS(1)
	regs := append([]registration(nil), s.apq.regs...)
	harvest(s, "concurrent16")
	s.close()
	for c := 0; c < clients; c++ {
		mine := map[int64]bool{}
		for _, h := range all[c] {
			for _, id := range h.ids {
				mine[id] = true
			}
		}
		for _, h := range all[c] {
			h := h
			judge(h, func(i int) []registration {
				var out []registration
				for _, g := range regs {
					if mine[g.By] && g.By < h.ids[i] {
						out = append(out, g)
					}
				}
				return out
			})
			res.count("histories", 1)
			res.count("histories_concurrent16", 1)
		}
	}
}

// ---------------------------------------------------------------------------------------------

type plan struct {
	Workers    int
	SeqHist    int
	ConcBatch  int
	ConcHists  int
	MaxLen     int
	ConcMaxLen int
}

func thePlan() plan {
	return plan{Workers: 14, SeqHist: ev.Pick(1500, 15000), ConcBatch: ev.Pick(42, 168), ConcHists: ev.Pick(1, 3), MaxLen: 40, ConcMaxLen: 25}
}

func worker(idx int) {
	// One P: sequential histories need no parallelism (the other cores run the other workers),
	// sync.Pool reuse is then perfect, and the two GC cycles that empty the pool before a fresh
	// POST cost ~0.5 ms instead of ~12 ms. Concurrent batches raise it to 16 for their phase 1.
	runtime.GOMAXPROCS(1)
	p := thePlan()
	seed := ev.Seed()
	for hI := idx; hI < p.SeqHist; hI += p.Workers {
		h := &histRun{Mode: "sequential", Cache: []string{"none", "lru"}[hI%2], Seed: seed*1000003 + int64(hI), MaxLen: p.MaxLen,
			Tag: fmt.Sprintf("h%d", hI), WS: hI%8 == 3}
		runSequential(h)
		if hI < 3 {
			res.Samples = append(res.Samples, map[string]any{"mode": h.Mode, "cache": h.Cache, "requests": len(h.reqs), "first": h.reqs[0], "second": h.reqs[1]})
		}
	}
	for b := idx; b < p.ConcBatch; b += p.Workers {
		runConcurrent(seed*7919+int64(b), []string{"lru", "none"}[b%2], p.ConcMaxLen, p.ConcHists)
	}
	out, _ := json.Marshal(res)
	fmt.Println("C07-RESULT " + string(out))
}

func main() {
	if w := os.Getenv("VERIF_C07_WORKER"); w != "" {
		idx, _ := strconv.Atoi(w)
		worker(idx)
		return
	}
	rep := ev.New("C07", "exploration")
	rep.Rule = "a case = a request judged against the fresh-server oracle; non-trivial when it was preceded on the long-lived server by a different request; distinct = distinct (previous request wire form, request wire form) pairs"
	rep.Assumptions = []string{
		"the fresh server is constructed like the long-lived one (same transports, extensions, cache kind) and primed with the APQ registrations the long-lived server was OBSERVED to make before the request (a wrapper around the APQ cache records Add calls); wrong registrations are C15's subject",
		"with 16 concurrent clients each client's APQ texts are unique to it, so 'earlier registrations' are the client's own earlier ones; all other requests are identical across clients on purpose",
		"transport.POST's params pool is package-level, hence shared with the fresh server: fresh answers are computed afterwards and the pool is emptied (two GC cycles) before every fresh POST (sync.Pool drops its victim cache at the second cycle); additionally every fresh answer is cross-checked for reproducibility (recomputed later in the same process, and compared between worker processes), which exposes state kept outside the server object",
		"bodies are compared as parsed JSON including member order; keep-alive frames of websocket sessions are ignored; no tracing extension is installed, so no timing data appears in responses",
		"resolvers are pure functions of their arguments and of the request's own operation context",
	}
	if os.Getenv("VERIF_REPLAY") != "" {
		os.Exit(doReplay(rep, os.Getenv("VERIF_REPLAY")))
	}
	self, err := os.Executable()
	if err != nil {
		rep.Inconclusive("cannot locate own executable: " + err.Error())
		os.Exit(rep.Finish(0, 0))
	}
	p := thePlan()
	outs := make([]string, p.Workers)
	errs := make([]error, p.Workers)
	var wg sync.WaitGroup
	for i := 0; i < p.Workers; i++ {
		wg.Add(1)
		go func(i int) {
			defer wg.Done()
			cmd := exec.Command(self)
			cmd.Env = append(os.Environ(), "VERIF_C07_WORKER="+strconv.Itoa(i))
			b, err := cmd.CombinedOutput()
			outs[i], errs[i] = string(b), err
		}(i)
	}
	wg.Wait()
	distinct := map[string]map[string]bool{}
	type seenAnswer struct {
		hash, what string
		worker     int
	}
	answers := map[string]seenAnswer{}
	for i, o := range outs {
		var r *result
		sc := bufio.NewScanner(strings.NewReader(o))
		sc.Buffer(make([]byte, 1<<20), 1<<28)
		for sc.Scan() {
			if l := sc.Text(); strings.HasPrefix(l, "C07-RESULT ") {
				r = &result{}
				if json.Unmarshal([]byte(strings.TrimPrefix(l, "C07-RESULT ")), r) != nil {
					r = nil
				}
			}
		}
		if r == nil {
			tail := o
			if len(tail) > 4000 {
				tail = tail[len(tail)-4000:]
			}
			if strings.Contains(o, "panic:") || strings.Contains(o, "fatal error:") {
				rep.Violate("worker-process-crashed", map[string]any{"worker": i, "error": fmt.Sprint(errs[i]), "output_tail": tail})
			} else {
				// killed from outside (e.g. memory pressure): not an observation of gqlgen
				rep.Inconclusive(fmt.Sprintf("worker %d ended without a result and without a Go crash report: %v", i, errs[i]))
			}
			continue
		}
		for k, n := range r.Counts {
			rep.Count(k, n)
		}
		for set, m := range r.Distinct {
			if distinct[set] == nil {
				distinct[set] = map[string]bool{}
			}
			for k := range m {
				distinct[set][k] = true
				rep.Distinct(set, k)
			}
		}
		for _, v := range r.Violations {
			rep.Violate(v.Sig, v.Detail)
		}
		for _, s := range r.Samples {
			rep.Sample(s)
		}
		for _, n := range r.Notes {
			rep.Inconclusive(n)
		}
		for k, a := range r.Oracle {
			if prev, ok := answers[k]; !ok {
				answers[k] = seenAnswer{a[0], a[1], i}
			} else {
				rep.Count("oracle_answers_cross_checked_between_processes", 1)
				if prev.hash != a[0] {
					rep.Violate("fresh-server-answer-differs-between-processes", map[string]any{"request": a[1], "workers": []int{prev.worker, i},
						"meaning": "freshly constructed servers in two processes answered the same lone request (same APQ priming) differently: the answer depends on traffic the process saw before, i.e. on state outside the server object"})
				}
			}
		}
	}
	rep.Set("worker_processes", p.Workers)
	if rep.Get("pool_reuse_sequential") == 0 {
		rep.Inconclusive("no request on a long-lived server received a recycled *graphql.RawParams: the pool-reset mechanism was not exercised")
	}
	if t := rep.Get("ws_sessions_unusable_socket_trouble"); t*5 > rep.Get("ws_sessions_compared") {
		rep.Inconclusive(fmt.Sprintf("%d of %d websocket sessions could not be used (socket timeouts in the harness)", t, rep.Get("ws_sessions_compared")))
	}
	if rep.Get("apq_lookups_hit") == 0 || rep.Get("query_cache_hits") == 0 {
		rep.Inconclusive("no APQ hit or no query-cache hit was observed")
	}
	os.Exit(rep.Finish(rep.Get("requests_compared"), int64(len(distinct["adjacent_pairs"]))))
}

func doReplay(rep *ev.Reporter, path string) int {
	b, err := os.ReadFile(path)
	if err != nil {
		fmt.Println("replay:", err)
		return 2
	}
	var f struct {
		Detail struct {
			History histRun `json:"history"`
		} `json:"detail"`
	}
	if err := json.Unmarshal(b, &f); err != nil || f.Detail.History.MaxLen == 0 {
		fmt.Println("replay: no history in file", err)
		return 2
	}
	// sync.Pool drops a quarter of the objects at random under the race detector, so whether a
	// particular request receives a recycled object varies from run to run: repeat the history
	runtime.GOMAXPROCS(1)
	for try := 0; try < 8 && len(res.Violations) == 0; try++ {
		h := f.Detail.History
		h.Mode = "sequential"
		runSequential(&h)
	}
	for _, v := range res.Violations {
		rep.Violate(v.Sig, v.Detail)
	}
	return rep.Finish(res.Counts["requests_compared"], 2)
}
