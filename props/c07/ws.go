package main

// Minimal websocket client for the two subscription subprotocols. A session is sequential: init,
// then one operation at a time (the next starts after the previous completed), so the order of
// the received frames is a function of the session alone.

import (
	"encoding/json"
	"fmt"
	"net/http/httptest"
	"strings"
	"time"

	"github.com/gorilla/websocket"
)

type wsOp struct {
	Payload string `json:"payload"` // JSON text of the subscribe/start payload
}

type wsSession struct {
	Subprotocol string `json:"subprotocol"` // graphql-ws | graphql-transport-ws
	Ops         []wsOp `json:"ops"`
}

type wsMsg struct {
	Type    string          `json:"type"`
	ID      string          `json:"id,omitempty"`
	Payload json.RawMessage `json:"payload,omitempty"`
}

func (s *server) doWS(sess *wsSession) response {
	s.tsOnce.Do(func() { s.ts = httptest.NewServer(s) })
	out := response{Status: 101}
	url := "ws" + strings.TrimPrefix(s.ts.URL, "http")
	d := websocket.Dialer{Subprotocols: []string{sess.Subprotocol}, HandshakeTimeout: 20 * time.Second}
	c, _, err := d.Dial(url, nil)
	if err != nil {
		out.Status = -1
		out.Body = "dial: " + err.Error()
		return out
	}
	defer c.Close()
	start := "start"
	if sess.Subprotocol == "graphql-transport-ws" {
		start = "subscribe"
	}
	read := func() (*wsMsg, bool) {
		for {
			c.SetReadDeadline(time.Now().Add(60 * time.Second))
			_, b, err := c.ReadMessage()
			if err != nil {
				out.Frames = append(out.Frames, "READ-END:"+closeText(err))
				return nil, false
			}
			var m wsMsg
			if json.Unmarshal(b, &m) != nil {
				out.Frames = append(out.Frames, "UNPARSABLE:"+string(b))
				continue
			}
			if m.Type == "ka" || m.Type == "ping" || m.Type == "pong" {
				continue // keep-alive traffic is timing, not content
			}
			out.Frames = append(out.Frames, fmt.Sprintf("%s|%s|%s", m.Type, m.ID, string(m.Payload)))
			return &m, true
		}
	}
	if c.WriteJSON(wsMsg{Type: "connection_init"}) != nil {
		return out
	}
	if m, ok := read(); !ok || m.Type != "connection_ack" {
		return out
	}
	for i, op := range sess.Ops {
		id := fmt.Sprintf("op%d", i+1)
		if c.WriteJSON(wsMsg{Type: start, ID: id, Payload: json.RawMessage(op.Payload)}) != nil {
			return out
		}
		for {
			m, ok := read()
			if !ok {
				return out
			}
			// the transport always follows an "error" for an id with "complete" for that id
			if m.ID == id && m.Type == "complete" {
				break
			}
		}
	}
	c.WriteMessage(websocket.CloseMessage, websocket.FormatCloseMessage(websocket.CloseNormalClosure, ""))
	return out
}

func closeText(err error) string {
	if ce, ok := err.(*websocket.CloseError); ok {
		return fmt.Sprintf("close %d %s", ce.Code, ce.Text)
	}
	return "error"
}
