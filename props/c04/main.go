// C04: user-code failures are contained: null plus error at the field, never a crash.
// Fault enumeration: for each operation the reference is run fault-free to list every invocation
// point (resolver calls, directive calls); then one run per point x {error, panic} with that
// single fault forced, compared with the reference under the same forced fault. RecoverFunc
// invocations are counted (exactly one per panic that was reached). Batches run in child
// processes: a crash of the child is itself a violation with the case that was running.
package main

import (
	"bufio"
	"context"
	"encoding/json"
	"fmt"
	"os"
	"os/exec"
	"sort"
	"strconv"
	"strings"
	"sync"
	"time"

	"github.com/99designs/gqlgen/graphql/executor"
	"github.com/vektah/gqlparser/v2/ast"
	"github.com/vektah/gqlparser/v2/parser"
	"github.com/vektah/gqlparser/v2/validator"

	"verif/internal/deferm"
	"verif/internal/diffrun"
	"verif/internal/drive"
	"verif/internal/ev"
	"verif/internal/opgen"
	"verif/internal/ref"
	"verif/internal/sjson"
	"verif/internal/univ"
	"verif/work/farm/cur/registry"
)

type childResult struct {
	Counts     map[string]int64 `json:"counts"`
	Distinct   []string         `json:"distinct"`
	Violations []map[string]any `json:"violations"`
	Inconcl    []string         `json:"inconclusive"`
	Samples    []map[string]any `json:"samples"`
	Evals      int64            `json:"evals"`
}

func main() {
	if len(os.Args) > 1 && os.Args[1] == "child" {
		child(os.Args[2], os.Args[3])
		return
	}
	rep := ev.New("C04", "fault_enumeration")
	rep.Rule = "for each (probe, operation) the fault-free reference run enumerates every resolver and directive invocation point; each point x {error, panic} is injected alone (complete enumeration per operation), plus seeded multi-fault sets; a case is distinct by (probe, operation, fault point, fault kind); non-trivial = the injected fault was reached by the real execution"
	rep.Assumptions = []string{
		"single faults are injected through the world function (forced outcome at one invocation key / directive call); the reference executor predicts the response under the same forced fault",
		"marshal-time and unmarshal-time faults of custom scalars are exercised by the transport checks (C10) and the harness scalars when present in the probe",
		"reference executor and world function as in C01",
	}
	var names []string
	for n := range registry.Probes {
		if strings.HasPrefix(n, "core_") || strings.HasPrefix(n, "rnd_") || strings.HasPrefix(n, "bound") {
			names = append(names, n)
		}
	}
	sort.Strings(names)
	if len(names) == 0 {
		rep.Inconclusive("no core probe generated and compiled on this tree")
		os.Exit(rep.Finish(0, 0))
	}
	self, _ := os.Executable()
	var wg sync.WaitGroup
	sem := make(chan struct{}, 12)
	var mu sync.Mutex
	var evals int64
	os.MkdirAll(ev.Root+"/work/tmp", 0o755)
	for _, name := range names {
		wg.Add(1)
		go func(name string) {
			defer wg.Done()
			sem <- struct{}{}
			defer func() { <-sem }()
			logPath := fmt.Sprintf("%s/work/tmp/c04-%s-%d.log", ev.Root, name, os.Getpid())
			outPath := logPath + ".json"
			defer os.Remove(logPath)
			defer os.Remove(outPath)
			cmd := exec.Command(self, "child", name, outPath)
			cmd.Env = append(os.Environ(), "C04_CASELOG="+logPath)
			lf, _ := os.Create(logPath + ".stderr")
			defer os.Remove(logPath + ".stderr")
			cmd.Stderr = lf
			cmd.Stdout = lf
			err := cmd.Start()
			if err == nil {
				done := make(chan error, 1)
				go func() { done <- cmd.Wait() }()
				select {
				case err = <-done:
				case <-time.After(20 * time.Minute):
					// a worker that never finishes (e.g. blocked on a handler that hangs): not a
					// crash, and nothing a wall clock may decide
					cmd.Process.Kill()
					<-done
					lf.Close()
					rep.Inconclusive("worker " + name + " exceeded the 20 min watchdog; last case: " + lastLine(logPath))
					return
				}
			}
			lf.Close()
			b, rerr := os.ReadFile(outPath)
			if err != nil || rerr != nil {
				// the child died: the last logged case was running
				last := lastLine(logPath)
				tail := tailFile(logPath+".stderr", 4000)
				rep.Violate("", map[string]any{"why": "worker process died while executing a case (a user-code failure must not crash the process)", "probe": name, "last_case": last, "stderr_tail": tail, "error": fmt.Sprint(err)})
				return
			}
			var cr childResult
			json.Unmarshal(b, &cr)
			for k, v := range cr.Counts {
				rep.Count(k, v)
			}
			for _, d := range cr.Distinct {
				rep.Distinct("reached_fault_cases", d)
			}
			for _, v := range cr.Violations {
				rep.Violate("", v)
			}
			for _, s := range cr.Inconcl {
				rep.Inconclusive(s)
			}
			for _, s := range cr.Samples {
				rep.Sample(s)
			}
			mu.Lock()
			evals += cr.Evals
			mu.Unlock()
		}(name)
	}
	wg.Wait()
	rep.Set("probes", names)
	os.Exit(rep.Finish(evals, int64(rep.DistinctLen("reached_fault_cases"))))
}

func lastLine(p string) string {
	f, err := os.Open(p)
	if err != nil {
		return ""
	}
	defer f.Close()
	sc := bufio.NewScanner(f)
	sc.Buffer(make([]byte, 1<<20), 1<<24)
	last := ""
	for sc.Scan() {
		last = sc.Text()
	}
	return last
}

func tailFile(p string, n int) string {
	b, _ := os.ReadFile(p)
	if len(b) > n {
		b = b[len(b)-n:]
	}
	return string(b)
}

func child(name, outPath string) {
	cr := &childResult{Counts: map[string]int64{}}
	caseLog, _ := os.Create(os.Getenv("C04_CASELOG"))
	defer caseLog.Close()
	env := univ.Bind(registry.Probes[name]())
	srv := drive.NewServerWithInterceptor(env)
	seed := ev.Seed()
	nOps := ev.Pick(12, 150)
	wl := fmt.Sprint(env.Probe.Options["worker_limit"])
	count := func(k string, n int64) { cr.Counts[k] += n }

	runOne := func(cid diffrun.Case, doc *ast.QueryDocument, vars map[string]any, p *univ.SeedPlan, expectPanics int) *diffrun.Outcome {
		b, _ := json.Marshal(cid)
		caseLog.Write(append(b, '\n'))
		caseLog.Sync()
		before := srv.Recovers.Load()
		o := diffrun.Compare(context.Background(), env, srv, doc, cid.Query, cid.OpName, vars, p, nil, 30*time.Second)
		cr.Evals++
		if o.Mismatch == "timeout" {
			cr.Inconcl = append(cr.Inconcl, "watchdog fired: "+cid.Query)
			return o
		}
		if o.Mismatch != "" {
			cr.Violations = append(cr.Violations, map[string]any{"case": cid, "why": "response under the injected fault differs from the reference: " + o.Mismatch + ": " + o.Detail, "detail": o.Describe()})
			return o
		}
		// recover hook: exactly once per panic that the reference says was reached
		wantPanics := 0
		for _, e := range o.Want.Errors {
			if strings.HasPrefix(e.Class, "panic:") {
				wantPanics++
			}
		}
		if got := int(srv.Recovers.Load() - before); got != wantPanics {
			cr.Violations = append(cr.Violations, map[string]any{"case": cid, "why": fmt.Sprintf("recover hook invoked %d times for %d reached panics", got, wantPanics)})
		}
		return o
	}

	for i := 0; i < nOps; i++ {
		opSeed := seed*9000011 + int64(i)
		kind := ast.Query
		if i%3 == 2 {
			kind = ast.Mutation
		}
		op, doc, _ := diffrun.GenValid(env.Schema, opSeed, kind, opgen.Config{MaxDepth: 4, MaxSel: 5})
		if doc == nil {
			count("opgen_rejected", 1)
			continue
		}
		vars := diffrun.DecodeVars(op.Vars)
		base := univ.SeedPlan{Seed: uint64(opSeed), MaxList: 3, NullPermille: 30}
		omit, _ := env.Probe.Options["nullable_input_omittable"].(bool)
		clean := ref.Execute(env, &base, doc, op.OpName, diffrun.CopyJSON(vars), ref.Options{Omittable: omit})
		if clean.RequestError != "" {
			continue
		}
		// enumerate points
		points := uniq(clean.FaultPoints)
		dirPoints := uniq(clean.DirCalls)
		count("operations", 1)
		count("resolver_points", int64(len(points)))
		count("directive_points", int64(len(dirPoints)))
		for _, pt := range points {
			for _, f := range []univ.Fault{univ.FaultError, univ.FaultPanic, univ.FaultErrList} {
				p := base
				p.ForceFault = map[string]univ.Fault{pt: f}
				cid := diffrun.Case{Probe: name, OpSeed: opSeed, Kind: string(kind), Plan: p, Query: op.Query, OpName: op.OpName, Vars: op.Vars,
					Extra: map[string]any{"fault_point": pt, "fault": faultName(f)}}
				o := runOne(cid, doc, vars, &p, 0)
				if o.Mismatch == "" && o.Want != nil {
					ctxClass := classify(o, pt, kind)
					count("fault_"+faultName(f)+"_"+ctxClass, 1)
					count("faults_worker_limit_"+wl, 1)
					cr.Distinct = append(cr.Distinct, fmt.Sprintf("%s|%d|%s|%d", name, opSeed, pt, f))
					if len(cr.Samples) < 1 && f == univ.FaultPanic {
						cr.Samples = append(cr.Samples, map[string]any{"probe": name, "query": op.Query, "fault_point": pt, "fault": "panic",
							"expected_errors": o.Want.Errors, "data": string(o.Got.Payloads[0].Raw)})
					}
				}
				// the same single fault raised by the field interceptor wrapping that resolver
				if ev.Tier() == "thorough" || univ.H("ic", pt)%2 == 0 {
					pi := p
					pi.FaultInInterceptor = true
					cidI := diffrun.Case{Probe: name, OpSeed: opSeed, Kind: string(kind), Plan: pi, Query: op.Query, OpName: op.OpName, Vars: op.Vars,
						Extra: map[string]any{"fault_point": pt, "fault": faultName(f), "raised_by": "field interceptor"}}
					if oi := runOne(cidI, doc, vars, &pi, 0); oi.Mismatch == "" && oi.Want != nil {
						count("interceptor_fault_"+faultName(f), 1)
						cr.Distinct = append(cr.Distinct, fmt.Sprintf("%s|%d|ic|%s|%d", name, opSeed, pt, f))
					}
				}
			}
		}
		for _, dp := range dirPoints {
			for _, outc := range []int{1, 2, 3} {
				p := base
				p.ForceDir = map[string]int{dp: outc}
				cid := diffrun.Case{Probe: name, OpSeed: opSeed, Kind: string(kind), Plan: p, Query: op.Query, OpName: op.OpName, Vars: op.Vars,
					Extra: map[string]any{"directive_point": dp, "outcome": []string{"", "error", "null", "panic"}[outc]}}
				o := runOne(cid, doc, vars, &p, 0)
				if o.Mismatch == "" {
					count("directive_fault_"+[]string{"", "error", "null", "panic"}[outc], 1)
					cr.Distinct = append(cr.Distinct, fmt.Sprintf("%s|%d|dir|%s|%d", name, opSeed, dp, outc))
				}
			}
		}
		// multi-fault sets
		for m := 0; m < ev.Pick(2, 6); m++ {
			p := univ.SeedPlan{Seed: uint64(opSeed) + uint64(m) + 100, MaxList: 3, NullPermille: 60, ErrPermille: 120, PanPermille: 120, DirPermille: 150}
			cid := diffrun.Case{Probe: name, OpSeed: opSeed, Kind: string(kind), Plan: p, Query: op.Query, OpName: op.OpName, Vars: op.Vars,
				Extra: map[string]any{"multi_fault": true}}
			o := runOne(cid, doc, vars, &p, 0)
			if o.Mismatch == "" && o.Want != nil {
				count("multi_fault_runs", 1)
				count("multi_fault_errors", int64(len(o.Want.Errors)))
			}
		}
	}
	// deferred groups: every resolver point of templated @defer queries, error and panic; the
	// payload sequence is judged by the incremental-merge client model against the plain reference
	for di, q := range []string{
		`{ an { vid ... @defer(label: "outer") { bo { vid ... @defer(label: "inner") { rs a { vid } } } rsn ri } } }`,
		`{ as(n: 3) { vid ... @defer { rs rbl { vid ... @defer { rs d { nn } } } } } }`,
		`{ an { ... @defer(label: "x") { rsn } ... @defer(label: "y") { rs bn { vid ... @defer { rs } } } } }`,
	} {
		doc, perr := parser.ParseQuery(&ast.Source{Input: q})
		if perr != nil || len(validator.Validate(env.Schema, doc)) > 0 {
			count("defer_template_rejected", 1)
			continue
		}
		base := univ.SeedPlan{Seed: uint64(seed)*91 + uint64(di), MaxList: 2, NullPermille: 20}
		clean := ref.Execute(env, &base, doc, "", nil, ref.Options{})
		points := append([]string{"<none>"}, uniq(clean.Invocations)...)
		for _, pt := range points {
			for _, f := range []univ.Fault{univ.FaultError, univ.FaultPanic} {
				p := base
				if pt != "<none>" {
					p.ForceFault = map[string]univ.Fault{pt: f}
				} else if f == univ.FaultPanic {
					continue
				}
				p.SchedMode = int(univ.H(pt, q) % 5)
				cid := diffrun.Case{Probe: name, Kind: "query", Plan: p, Query: q, Extra: map[string]any{"fault_point": pt, "fault": faultName(f), "context": "deferred group"}}
				b, _ := json.Marshal(cid)
				caseLog.Write(append(b, '\n'))
				caseLog.Sync()
				want := ref.Execute(env, &p, doc, "", nil, ref.Options{})
				before := srv.Recovers.Load()
				got := srv.Run(context.Background(), &univ.Run{Plan: &p}, q, "", nil, 30*time.Second)
				cr.Evals++
				if got.TimedOut {
					cr.Inconcl = append(cr.Inconcl, "watchdog fired: "+q)
					continue
				}
				sig, why, info := deferm.Judge(want, got)
				if why == "" {
					wantPanics := 0
					for _, e := range want.Errors {
						if strings.HasPrefix(e.Class, "panic:") {
							wantPanics++
						}
					}
					// a fault under a nulled object may legitimately not be reached in defer mode
					if n := int(srv.Recovers.Load() - before); n > wantPanics {
						why = fmt.Sprintf("recover hook invoked %d times for %d reachable panics", n, wantPanics)
					}
				}
				if why != "" && sig != "deferred-group-delivered-under-nulled-ancestor" {
					cr.Violations = append(cr.Violations, map[string]any{"case": cid, "why": "deferred delivery under the injected fault: " + why, "payloads": deferm.Describe(got)})
					continue
				}
				if pt != "<none>" && info.Incremental > 0 {
					count("fault_"+faultName(f)+"_deferred_group_query", 1)
					cr.Distinct = append(cr.Distinct, fmt.Sprintf("%s|defer%d|%s|%d", name, di, pt, f))
				}
			}
		}
	}

	// subscription events: every resolver point under every event, error and panic
	for si, q := range []string{
		`subscription { ticks(n: 2) { vid rs bo { vid rs } rbl { vid rs } } }`,
		`subscription { ticks { rsn cn { d { nn } } } }`,
		`subscription { tick2 }`,
	} {
		doc, perr := parser.ParseQuery(&ast.Source{Input: q})
		if perr != nil || len(validator.Validate(env.Schema, doc)) > 0 {
			count("subscription_template_rejected", 1)
			continue
		}
		base := univ.SeedPlan{Seed: uint64(seed)*77 + uint64(si), MaxList: 2, NullPermille: 30}
		clean := ref.ExecuteSubscription(env, &base, doc, "", nil, ref.Options{}, 3)
		var points []string
		for _, r := range clean {
			points = append(points, r.Invocations...)
		}
		points = append([]string{"<none>"}, uniq(points)...)
		for _, pt := range points {
			for _, f := range []univ.Fault{univ.FaultError, univ.FaultPanic} {
				p := base
				if pt != "<none>" {
					p.ForceFault = map[string]univ.Fault{pt: f}
				} else if f == univ.FaultPanic {
					continue
				}
				cid := diffrun.Case{Probe: name, Kind: "subscription", Plan: p, Query: q, Extra: map[string]any{"fault_point": pt, "fault": faultName(f)}}
				b, _ := json.Marshal(cid)
				caseLog.Write(append(b, '\n'))
				caseLog.Sync()
				want := ref.ExecuteSubscription(env, &p, doc, "", nil, ref.Options{}, 3)
				before := srv.Recovers.Load()
				got := srv.Run(context.Background(), &univ.Run{Plan: &p}, q, "", nil, 30*time.Second)
				cr.Evals++
				if got.TimedOut {
					cr.Inconcl = append(cr.Inconcl, "watchdog fired: "+q)
					continue
				}
				why := compareEvents(want, got)
				wantPanics := 0
				for _, w := range want {
					for _, e := range w.Errors {
						if strings.HasPrefix(e.Class, "panic:") {
							wantPanics++
						}
					}
				}
				if why == "" {
					if n := int(srv.Recovers.Load() - before); n != wantPanics {
						why = fmt.Sprintf("recover hook invoked %d times for %d reached panics", n, wantPanics)
					}
				}
				if why != "" {
					var payloads []string
					for _, pl := range got.Payloads {
						payloads = append(payloads, fmt.Sprintf("%s errors=%v", pl.Raw, pl.Errors))
					}
					cr.Violations = append(cr.Violations, map[string]any{"case": cid, "why": "subscription events under the injected fault differ from the reference: " + why, "real_payloads": payloads})
					continue
				}
				if pt != "<none>" {
					count("fault_"+faultName(f)+"_subscription_event", 1)
					cr.Distinct = append(cr.Distinct, fmt.Sprintf("%s|sub%d|%s|%d", name, si, pt, f))
				}
				count("subscription_payloads_compared", int64(len(want)))
			}
		}
	}

	if strings.HasPrefix(name, "core_") {
		scalarFaults(name, env, srv, cr, count)
	}
	defaultRecoverStage(name, env, cr, count)

	// the process must still serve after all of that
	op, doc, _ := diffrun.GenValid(env.Schema, 424242, ast.Query, opgen.Config{MaxDepth: 2})
	if doc != nil {
		p := univ.SeedPlan{Seed: 5, MaxList: 2}
		o := diffrun.Compare(context.Background(), env, srv, doc, op.Query, op.OpName, diffrun.DecodeVars(op.Vars), &p, nil, 30*time.Second)
		if o.Mismatch != "" {
			cr.Violations = append(cr.Violations, map[string]any{"why": "server no longer answers correctly after the fault runs: " + o.Mismatch + ": " + o.Detail})
		}
		count("liveness_probe_after_faults", 1)
	}
	b, _ := json.Marshal(cr)
	os.WriteFile(outPath, b, 0o644)
}

// compareEvents compares the payload sequence of a subscription with the reference, event by event.
func compareEvents(want []*ref.Result, got *drive.Real) string {
	if len(want) == 1 && want[0].RequestError != "" {
		if len(got.RequestErrors) == 0 {
			return "reference refuses the request, the server did not"
		}
		return ""
	}
	if len(got.RequestErrors) > 0 {
		return fmt.Sprintf("request refused: %v", got.RequestErrors)
	}
	if len(want) != len(got.Payloads) {
		return fmt.Sprintf("%d payloads, expected %d", len(got.Payloads), len(want))
	}
	for i, w := range want {
		pl := got.Payloads[i]
		if w.Data == nil {
			if pl.Data != nil && pl.Data.Kind != sjson.Null {
				return fmt.Sprintf("payload %d: data present where only an error is expected", i)
			}
		} else {
			if !pl.ParseOK || pl.Data == nil {
				return fmt.Sprintf("payload %d: no valid data", i)
			}
			if d := sjson.Diff(w.Data, pl.Data, true, "data"); d != "" {
				return fmt.Sprintf("payload %d: %s", i, d)
			}
		}
		if d := drive.DiffErrors(w.Errors, pl.Errors); d != "" {
			return fmt.Sprintf("payload %d errors: %s", i, d)
		}
	}
	return ""
}

func uniq(in []string) []string {
	seen := map[string]bool{}
	var out []string
	for _, s := range in {
		if !seen[s] {
			seen[s] = true
			out = append(out, s)
		}
	}
	return out
}

func faultName(f univ.Fault) string {
	if f == univ.FaultErrList {
		return "error-list"
	}
	if f == univ.FaultPanic {
		return "panic"
	}
	return "error"
}

// classify names the execution context of the faulting invocation from the event log.
func classify(o *diffrun.Outcome, pt string, kind ast.Operation) string {
	for _, e := range o.Got.Events {
		k := univ.Key{Object: e.Object, Vid: e.Vid, Field: e.Field, Args: e.Args}
		if (e.Kind == "resolver" || e.Kind == "method") && k.String() == pt {
			depth := strings.Count(e.Path, ".")
			inList := strings.Contains(e.Path, "[")
			nested := strings.Count(e.Path, "[") > 1
			switch {
			case depth == 0 && kind == ast.Mutation:
				return "mutation_root_sequential"
			case depth == 0:
				return "query_root"
			case nested:
				return "nested_list_element"
			case inList:
				return "list_element_goroutine"
			default:
				return "concurrent_sibling_depth" + strconv.Itoa(min(depth, 3))
			}
		}
	}
	return "not_reached"
}

// defaultRecoverStage: a server that never configured a recover hook (graphql.DefaultRecover): several
// panics per response and across a sequence of requests, each reported at its own position.
func defaultRecoverStage(name string, env *univ.Env, cr *childResult, count func(string, int64)) {
	srv := &drive.Server{Env: env, Exec: executor.New(env.ES)}
	omit, _ := env.Probe.Options["nullable_input_omittable"].(bool)
	done := 0
	for i := 0; i < 40 && done < 12; i++ {
		opSeed := int64(880000 + i)
		op, doc, _ := diffrun.GenValid(env.Schema, opSeed, ast.Query, opgen.Config{MaxDepth: 3, MaxSel: 5})
		if doc == nil {
			continue
		}
		p := univ.SeedPlan{Seed: uint64(opSeed), MaxList: 3, PanPermille: 250, NullPermille: 30}
		vars := diffrun.DecodeVars(op.Vars)
		want := ref.Execute(env, &p, doc, op.OpName, diffrun.CopyJSON(vars), ref.Options{Omittable: omit})
		if want.RequestError != "" {
			continue
		}
		var wp []string
		for _, e := range want.Errors {
			if strings.HasPrefix(e.Class, "panic:") {
				wp = append(wp, e.Path)
			}
		}
		if len(wp) == 0 {
			continue
		}
		got := srv.Run(context.Background(), &univ.Run{Plan: &p}, op.Query, op.OpName, diffrun.CopyJSON(vars), 30*time.Second)
		cr.Evals++
		done++
		if got.TimedOut || len(got.Payloads) != 1 {
			cr.Violations = append(cr.Violations, map[string]any{"why": "default recover hook: no single response", "probe": name, "query": op.Query})
			continue
		}
		var gp []string
		for _, e := range got.Payloads[0].Errors {
			if e.Class == "other:internal system error" {
				gp = append(gp, e.Path)
			}
		}
		sort.Strings(wp)
		sort.Strings(gp)
		if d := drive.DiffStrings(wp, gp); d != "" {
			cr.Violations = append(cr.Violations, map[string]any{"why": "default recover hook: the positions reported for the panics of this response differ from the positions that panicked: " + d,
				"probe": name, "query": op.Query, "variables": op.Vars, "plan": p, "request_in_sequence": done})
		}
		count("default_recover_panics_located", int64(len(wp)))
	}
	cr.Distinct = append(cr.Distinct, name+"|default-recover")
}
