package main

// Harness-scalar faults: the core probe's Boom scalar fails on command while unmarshaling an
// argument (error / panic) and while being serialized (panic). Serialization-time panics are
// driven through the real HTTP POST and websocket transports, which is where the last recover
// lives; the process must survive, the failing response must be a well-formed error, the recover
// hook must fire exactly once, and the next request must work.

import (
	"bytes"
	"context"
	"encoding/json"
	"fmt"
	"io"
	"net/http"
	"net/http/httptest"
	"strings"
	"sync/atomic"
	"time"

	"github.com/99designs/gqlgen/graphql/handler"
	"github.com/99designs/gqlgen/graphql/handler/apollofederatedtracingv1"
	"github.com/99designs/gqlgen/graphql/handler/transport"
	"github.com/gorilla/websocket"

	"verif/internal/drive"
	"verif/internal/sjson"
	"verif/internal/univ"
)

func scalarFaults(name string, env *univ.Env, srv *drive.Server, cr *childResult, count func(string, int64)) {
	viol := func(why string, detail any) {
		cr.Violations = append(cr.Violations, map[string]any{"why": why, "probe": name, "detail": detail, "context": "harness scalar"})
	}
	plan := &univ.SeedPlan{Seed: 3, MaxList: 2}

	// --- argument unmarshal error / panic through the executor
	for _, c := range []struct {
		arg      string
		recovers int64
		kind     string
	}{{"uerr:1", 0, "unmarshal_error"}, {"ugqlerr:1", 0, "unmarshal_gqlerror"}, {"upanic:1", 1, "unmarshal_panic"}, {"fine", 0, "control"}} {
		q := fmt.Sprintf(`{ scalar xboom(b: %q) an { vid } }`, c.arg)
		before := srv.Recovers.Load()
		run := &univ.Run{Plan: plan}
		got := srv.Run(context.Background(), run, q, "", nil, 30*time.Second)
		cr.Evals++
		if got.TimedOut || len(got.Payloads) != 1 || got.Payloads[0].Data == nil {
			viol("no single data payload for "+q, got.RequestErrors)
			continue
		}
		pl := got.Payloads[0]
		invoked := false
		for _, e := range got.Events {
			if e.Kind == "resolver" && e.Field == "xboom" {
				invoked = true
			}
		}
		an := pl.Data.Get("an")
		sc := pl.Data.Get("scalar")
		xb := pl.Data.Get("xboom")
		if c.kind == "control" {
			if xb == nil || xb.Kind != sjson.String || xb.Str != "fine" || len(pl.Errors) != 0 || !invoked {
				viol("control echo through the harness scalar failed", string(pl.Raw))
			}
			continue
		}
		if invoked {
			viol("resolver was called although its argument unmarshaler failed ("+c.kind+")", string(pl.Raw))
		}
		if xb == nil || xb.Kind != sjson.Null {
			viol("field with failing argument unmarshaler is not null ("+c.kind+")", string(pl.Raw))
		}
		if an == nil || an.Kind != sjson.Object || sc == nil {
			viol("sibling positions lost their values ("+c.kind+")", string(pl.Raw))
		}
		if len(pl.Errors) != 1 || !strings.HasPrefix(pl.Errors[0].Path, "xboom") {
			viol(fmt.Sprintf("expected exactly one error under path xboom (%s), got %v", c.kind, pl.Errors), string(pl.Raw))
		} else if c.kind != "unmarshal_panic" && pl.Errors[0].Path != "xboom.b" {
			// an error RETURNED by the unmarshaler of argument b is reported at the argument
			viol(fmt.Sprintf("the error of argument b's unmarshaler (%s) is reported at path %q, not at the argument (xboom.b)", c.kind, pl.Errors[0].Path), string(pl.Raw))
		}
		if n := srv.Recovers.Load() - before; n != c.recovers {
			viol(fmt.Sprintf("recover hook invoked %d times, expected %d (%s)", n, c.recovers, c.kind), string(pl.Raw))
		}
		count("fault_"+c.kind+"_argument_unmarshaler", 1)
		cr.Distinct = append(cr.Distinct, name+"|scalar|"+c.kind)
	}

	// --- serialization-time panic through the transports
	var recovers atomic.Int64
	h := handler.New(env.ES)
	h.AddTransport(transport.Websocket{Upgrader: websocket.Upgrader{CheckOrigin: func(*http.Request) bool { return true }}})
	h.AddTransport(transport.SSE{KeepAlivePingInterval: 2 * time.Millisecond})
	h.AddTransport(transport.MultipartMixed{})
	h.AddTransport(transport.POST{})
	h.SetRecoverFunc(func(ctx context.Context, r any) error {
		recovers.Add(1)
		return fmt.Errorf("PANIC:%v", r)
	})
	wrapped := http.HandlerFunc(func(rw http.ResponseWriter, r *http.Request) {
		r = r.WithContext(univ.WithRun(r.Context(), &univ.Run{Plan: plan}))
		h.ServeHTTP(rw, r)
	})
	ts := httptest.NewServer(wrapped)
	// Close waits for outstanding handlers; one that hangs (a finding) must not hang the worker
	defer func() {
		done := make(chan struct{})
		go func() { ts.CloseClientConnections(); ts.Close(); close(done) }()
		select {
		case <-done:
		case <-time.After(5 * time.Second):
		}
	}()
	post := func(q string) (int, string) {
		b, _ := json.Marshal(map[string]any{"query": q})
		resp, err := http.Post(ts.URL, "application/json", bytes.NewReader(b))
		if err != nil {
			return 0, err.Error()
		}
		defer resp.Body.Close()
		body, _ := io.ReadAll(resp.Body)
		return resp.StatusCode, string(body)
	}
	before := recovers.Load()
	status, body := post(`{ scalar xboom(b: "mpanic:1") }`)
	cr.Evals++
	v, err := sjson.Parse([]byte(body))
	if err != nil || v.Kind != sjson.Object || v.Get("errors") == nil || v.Get("errors").Kind != sjson.Array || len(v.Get("errors").Arr) == 0 {
		viol(fmt.Sprintf("serialization-time panic over POST: body is not a well-formed error response (status %d)", status), body)
	}
	if n := recovers.Load() - before; n != 1 {
		viol(fmt.Sprintf("serialization-time panic over POST: recover hook invoked %d times", n), body)
	}
	status, body = post(`{ scalar xboom(b: "ok") }`)
	if status != 200 || !strings.Contains(body, `"xboom":"ok"`) {
		viol("server does not answer correctly after a serialization-time panic over POST", body)
	}
	count("fault_marshal_panic_post", 1)
	cr.Distinct = append(cr.Distinct, name+"|scalar|marshal_panic_post")

	// --- the failed request names its operation and carries variables and extensions; the healthy
	// request after it has none of those members: nothing of the failed request may be left in
	// whatever the transport reuses between requests
	postRaw := func(body string) (int, string) {
		resp, err := http.Post(ts.URL, "application/json", strings.NewReader(body))
		if err != nil {
			return 0, err.Error()
		}
		defer resp.Body.Close()
		b, _ := io.ReadAll(resp.Body)
		return resp.StatusCode, string(b)
	}
	for i := 0; i < 8; i++ {
		postRaw(`{"query":"query Boom($b: Boom) { scalar xboom(b: $b) }","operationName":"Boom","variables":{"b":"mpanic:3"},"extensions":{"left":"over"}}`)
		status, body = postRaw(`{"query":"{ scalar xboom(b: \"ok\") }"}`)
		cr.Evals++
		if status != 200 || !strings.Contains(body, `"xboom":"ok"`) {
			viol("a request without operationName / variables is answered wrongly after a request with them whose serialization panicked", map[string]any{"status": status, "body": body, "round": i})
			break
		}
	}
	count("fault_marshal_panic_then_bare_request", 8)

	// --- with the Apollo federated tracer (ftv1) recording the operation: user-code failures are
	// contained exactly as without it - several failures in one response (some at positions the
	// tracer has no node for, like argument errors), sibling resolvers running concurrently
	{
		ht := handler.New(env.ES)
		ht.AddTransport(transport.POST{})
		ht.Use(&apollofederatedtracingv1.Tracer{})
		var rec atomic.Int64
		ht.SetRecoverFunc(func(ctx context.Context, r any) error { rec.Add(1); return fmt.Errorf("PANIC:%v", r) })
		tst := httptest.NewServer(http.HandlerFunc(func(rw http.ResponseWriter, r *http.Request) {
			r = r.WithContext(univ.WithRun(r.Context(), &univ.Run{Plan: plan}))
			ht.ServeHTTP(rw, r)
		}))
		tpost := func(q string) (int, string, error) {
			b, _ := json.Marshal(map[string]any{"query": q})
			req, _ := http.NewRequest("POST", tst.URL, bytes.NewReader(b))
			req.Header.Set("Content-Type", "application/json")
			req.Header.Set("apollo-federation-include-trace", "ftv1")
			resp, err := (&http.Client{Timeout: 15 * time.Second}).Do(req)
			if err != nil {
				return 0, "", err
			}
			defer resp.Body.Close()
			body, _ := io.ReadAll(resp.Body)
			return resp.StatusCode, string(body), nil
		}
		for _, q := range []string{
			`{ a: xboom(b: "uerr:1") b: xboom(b: "uerr:2") scalar }`,
			`{ a: xboom(b: "upanic:1") b: xboom(b: "uerr:2") c: xboom(b: "ok") }`,
		} {
			status, body, err := tpost(q)
			cr.Evals++
			v, perr := sjson.Parse([]byte(body))
			switch {
			case err != nil:
				viol("with the ftv1 tracer installed a request with several failing arguments never ended", map[string]any{"query": q, "error": err.Error()})
			case perr != nil || v.Kind != sjson.Object || v.Get("errors") == nil || len(v.Get("errors").Arr) != 2:
				viol(fmt.Sprintf("with the ftv1 tracer installed: expected two errors for two failing arguments (status %d)", status), body)
			}
			count("fault_with_ftv1_tracer_several_failures", 1)
		}
		for i := 0; i < 12; i++ {
			status, body, err := tpost(`{ an { vid rs ri rsn bo { vid rs } bn { vid rs } rbl { vid rs } } as(n: 3) { vid rs ri rbl { vid rs } } scalar }`)
			cr.Evals++
			if err != nil || status != 200 || !strings.Contains(body, `"ftv1"`) {
				viol(fmt.Sprintf("with the ftv1 tracer installed a query with concurrently resolved siblings was not answered with data and a trace (status %d, %v)", status, err), body)
				break
			}
			count("ftv1_traced_concurrent_sibling_queries", 1)
		}
		cr.Distinct = append(cr.Distinct, name+"|scalar|ftv1")
		done := make(chan struct{})
		go func() { tst.CloseClientConnections(); tst.Close(); close(done) }()
		select {
		case <-done:
		case <-time.After(5 * time.Second):
		}
	}

	// --- a value that serializes to something that is not JSON: the failure happens while the
	// transport encodes the response (for the streaming transports inside their serialised write
	// section); the request must end, and the server must keep serving
	for _, acc := range []string{"application/json", "text/event-stream", "multipart/mixed"} {
		b, _ := json.Marshal(map[string]any{"query": `{ scalar xboom(b: "minvalid:1") }`})
		req, _ := http.NewRequest("POST", ts.URL, bytes.NewReader(b))
		req.Header.Set("Content-Type", "application/json")
		req.Header.Set("Accept", acc)
		cl := &http.Client{Timeout: 15 * time.Second}
		t0 := time.Now()
		resp, err := cl.Do(req)
		var rb []byte
		if err == nil {
			rb, err = io.ReadAll(resp.Body)
			resp.Body.Close()
		}
		cr.Evals++
		if err != nil && time.Since(t0) > 14*time.Second {
			viol("a response whose encoding fails ("+acc+") never ended: the request hangs", map[string]any{"error": err.Error(), "bytes_received": string(rb)})
		}
		status, body = post(`{ scalar xboom(b: "ok") }`)
		if status != 200 || !strings.Contains(body, `"xboom":"ok"`) {
			viol("server does not answer correctly after a response whose encoding failed ("+acc+")", body)
		}
		count("fault_unencodable_value_"+acc, 1)
		cr.Distinct = append(cr.Distinct, name+"|scalar|unencodable|"+acc)
	}

	// --- a panic while a DEFERRED payload is serialized, over the streaming transports: the request
	// ends, the process survives, the next request is served
	for _, acc := range []string{"multipart/mixed", "text/event-stream"} {
		for _, q := range []string{`{ scalar ... @defer { xboom(b: "mpanic:7") } }`, `{ scalar ... @defer(label: "d") { xboom(b: "minvalid:7") } }`} {
			b, _ := json.Marshal(map[string]any{"query": q})
			req, _ := http.NewRequest("POST", ts.URL, bytes.NewReader(b))
			req.Header.Set("Content-Type", "application/json")
			req.Header.Set("Accept", acc)
			t0 := time.Now()
			resp, err := (&http.Client{Timeout: 15 * time.Second}).Do(req)
			var rb []byte
			if err == nil {
				rb, err = io.ReadAll(resp.Body)
				resp.Body.Close()
			}
			cr.Evals++
			if err != nil && time.Since(t0) > 14*time.Second {
				viol("a deferred payload whose serialization fails ("+acc+") never ended the request", map[string]any{"query": q, "error": err.Error(), "bytes_received": string(rb)})
			}
			time.Sleep(20 * time.Millisecond) // a late writer of that response would act now
			status, body = post(`{ scalar xboom(b: "ok") }`)
			if status != 200 || !strings.Contains(body, `"xboom":"ok"`) {
				viol("server does not answer correctly after a deferred payload whose serialization failed ("+acc+")", body)
			}
			count("fault_in_deferred_payload_serialization_"+acc, 1)
		}
		cr.Distinct = append(cr.Distinct, name+"|scalar|deferred-serialization|"+acc)
	}

	for _, proto := range []string{"graphql-ws", "graphql-transport-ws"} {
		d := websocket.Dialer{Subprotocols: []string{proto}}
		c, _, err := d.Dial("ws"+strings.TrimPrefix(ts.URL, "http"), nil)
		if err != nil {
			cr.Inconcl = append(cr.Inconcl, "ws dial: "+err.Error())
			continue
		}
		start := "start"
		if proto == "graphql-transport-ws" {
			start = "subscribe"
		}
		c.WriteJSON(map[string]any{"type": "connection_init"})
		before := recovers.Load()
		c.WriteJSON(map[string]any{"type": start, "id": "p", "payload": map[string]any{"query": `{ scalar xboom(b: "mpanic:2") }`}})
		c.SetReadDeadline(time.Now().Add(20 * time.Second))
		gotErr, gotData := false, false
		var frames []string
		readUntil := func(id string) {
			for i := 0; i < 12; i++ {
				var m map[string]any
				if err := c.ReadJSON(&m); err != nil {
					frames = append(frames, "read error: "+err.Error())
					return
				}
				b, _ := json.Marshal(m)
				frames = append(frames, string(b))
				if m["id"] != id {
					continue
				}
				switch m["type"] {
				case "error":
					gotErr = true
				case "data", "next":
					// a payload that only carries errors also counts as the error answer
					if p, ok := m["payload"].(map[string]any); ok {
						if es, ok := p["errors"].([]any); ok && len(es) > 0 && p["data"] == nil {
							gotErr = true
						} else {
							gotData = true
						}
					}
				case "complete":
					return
				}
				if gotErr && m["type"] == "error" && proto == "graphql-transport-ws" {
					return
				}
			}
		}
		readUntil("p")
		cr.Evals++
		if !gotErr {
			viol("serialization-time panic over websocket ("+proto+"): the operation got no error answer", frames)
		}
		if n := recovers.Load() - before; n != 1 {
			viol(fmt.Sprintf("serialization-time panic over websocket (%s): recover hook invoked %d times", proto, n), frames)
		}
		// the connection (and the process) keeps serving
		gotErr, gotData = false, false
		frames = nil
		c.WriteJSON(map[string]any{"type": start, "id": "q", "payload": map[string]any{"query": `{ scalar xboom(b: "ok") }`}})
		readUntil("q")
		if !gotData {
			viol("websocket connection does not serve the next operation after a serialization-time panic ("+proto+")", frames)
		}
		c.Close()
		count("fault_marshal_panic_websocket_"+proto, 1)
		cr.Distinct = append(cr.Distinct, name+"|scalar|marshal_panic_ws_"+proto)
	}
}
