// C17: code generation succeeds and compiles for every supported schema and config.
//
// For every seeded (random schema, random configuration) project: write schema files + gqlgen.yml
// (+ the hand-written autobind package) under work/gen/c17/<name>/, run the generator of the
// repository's CURRENT tree (work/bin/gendrv, one child process per project: exit 3 = generator
// error, 4 = panic), then type-check every generated package (executor, models, resolver stubs,
// stub file) with one `go build -tags verif` (+ `go vet` on the thorough tier) against the current
// runtime packages. Every project counts: a refusal, a panic or a compile error is a violation.
package main

import (
	"bytes"
	"crypto/sha256"
	"encoding/hex"
	"encoding/json"
	"fmt"
	"os"
	"os/exec"
	"path/filepath"
	"regexp"
	"sort"
	"strings"
	"sync"
	"time"

	"github.com/vektah/gqlparser/v2"
	"github.com/vektah/gqlparser/v2/ast"

	"verif/internal/ev"
	"verif/internal/schemagen"
)

type projResult struct {
	P        *schemagen.Project
	Idx      int
	Size     int
	Stress   bool
	Known    string // known-finding class whose witness was injected ("" = general project)
	Dir      string
	GenExit  int
	GenOut   string
	GoFiles  int
	GoBytes  int64
	Packages []string
	CompErr  map[string]string // package -> errors
	VetErr   map[string]string
}

func goEnv() []string {
	env := []string{}
	for _, e := range os.Environ() {
		if strings.HasPrefix(e, "GOFLAGS=") || strings.HasPrefix(e, "GOPROXY=") || strings.HasPrefix(e, "GOMAXPROCS=") {
			continue
		}
		env = append(env, e)
	}
	return append(env, "GOFLAGS=-mod=mod", "GOPROXY=off")
}

func run(dir string, timeout time.Duration, env []string, name string, args ...string) (int, string, bool) {
	cmd := exec.Command(name, args...)
	cmd.Dir = dir
	cmd.Env = env
	var out bytes.Buffer
	cmd.Stdout = &out
	cmd.Stderr = &out
	if err := cmd.Start(); err != nil {
		return 127, err.Error(), false
	}
	done := make(chan error, 1)
	go func() { done <- cmd.Wait() }()
	select {
	case err := <-done:
		if err != nil {
			if ee, ok := err.(*exec.ExitError); ok {
				return ee.ExitCode(), out.String(), false
			}
			return 126, out.String() + err.Error(), false
		}
		return 0, out.String(), false
	case <-time.After(timeout):
		cmd.Process.Kill()
		<-done
		return 124, out.String(), true
	}
}

var (
	reQuoted = regexp.MustCompile("\"[^\"]*\"|`[^`]*`|'[^']*'")
	rePath   = regexp.MustCompile(`[\w./\-]*/[\w./\-]+`)
	reNum    = regexp.MustCompile(`\d+`)
	reIdent  = regexp.MustCompile(`\b[A-Za-z_]*[A-Z_0-9][A-Za-z_0-9]*\b`)
	reSpace  = regexp.MustCompile(`[^a-z]+`)
)

// signature turns an error text into a stable class name: quoted strings, paths, numbers and
// identifiers containing capitals / digits / underscores (schema-specific names) are dropped.
func signature(kind, msg string) string {
	line := msg
	for _, l := range strings.Split(msg, "\n") {
		l = strings.TrimSpace(l)
		if l == "" || strings.HasPrefix(l, "#") || strings.HasPrefix(l, "goroutine ") {
			continue
		}
		line = l
		break
	}
	// drop "file.go:12:3: " prefix
	if i := strings.Index(line, ".go:"); i >= 0 {
		rest := line[i+4:]
		if j := strings.Index(rest, ": "); j >= 0 {
			line = rest[j+2:]
		}
	}
	line = reQuoted.ReplaceAllString(line, " ")
	line = rePath.ReplaceAllString(line, " ")
	line = reIdent.ReplaceAllString(line, " ")
	line = reNum.ReplaceAllString(line, " ")
	line = strings.Trim(reSpace.ReplaceAllString(strings.ToLower(line), "-"), "-")
	if len(line) > 90 {
		line = line[:90]
	}
	return kind + ":" + line
}

func hashOf(parts ...string) string {
	h := sha256.New()
	for _, p := range parts {
		h.Write([]byte(p))
		h.Write([]byte{0})
	}
	return hex.EncodeToString(h.Sum(nil))[:16]
}

func sizeFor(idx int) int {
	return []int{3, 6, 10, 4, 16, 8, 5, 24}[idx%8]
}

func main() {
	rep := ev.New("C17", "exploration")
	rep.Rule = "one evaluation = one seeded (random SDL schema, random gqlgen.yml) project pushed through the current generator in a child process and type-checked with go build; distinct_nontrivial = distinct (schema text, configuration) hashes among projects whose schema uses at least an interface, a union, an input, an enum, a directive application and a default value"
	rep.Assumptions = append([]string{
		"inputs are schemas accepted by gqlparser's schema validator (checked per project before generation; a rejected schema is a harness error, not a finding)",
		"the hand-written autobind package is written by the harness: structs with plainly named scalar fields / methods, one input, one enum with its own marshaler, one enum bound through enum_values; bound objects implement no interface and belong to no union",
		"with struct_fields_always_pointers: false the grammar emits no cycle of plain non-null object fields (Go cannot embed structs recursively by value)",
		"gendrv adds the stubgen plugin (stub.go) and the harness file verif_meta.go to the executor package; compile errors located only in verif_meta.go are reported under their own signature",
		"go vet is run on the thorough tier only",
		"the workload classes of the known findings listed for C17 in known_findings.txt (schemagen.KnownClasses) never occur in the general projects - only the failing conjunction of schema feature and option is avoided, e.g. enum_values binding stays in projects without function syntax - and each class gets its own dedicated projects (1 quick / 3 thorough) into which the minimal witness is injected; a dedicated project whose predicate (witness injected + option of the conjunction set, computed from schema and config, not from error text) holds is matched against that signature only; counters known_class_projects:<class>:<passed|failed> report them",
	}, schemagen.Assumptions...)

	seed := ev.Seed()
	n := ev.Pick(24, 270)
	par := 12
	root := ev.Root
	genRoot := filepath.Join(root, "work", "gen", "c17")
	os.RemoveAll(genRoot)
	if err := os.MkdirAll(genRoot, 0o755); err != nil {
		rep.Inconclusive("cannot create work/gen/c17: " + err.Error())
		os.Exit(rep.Finish(0, 0))
	}
	gendrv := filepath.Join(root, "work", "bin", "gendrv")
	if _, err := os.Stat(gendrv); err != nil {
		rep.Inconclusive("work/bin/gendrv missing (the farm tool builds it)")
		os.Exit(rep.Finish(0, 0))
	}

	only := -1
	if rp := os.Getenv("VERIF_REPLAY"); rp != "" {
		b, err := os.ReadFile(rp)
		var f struct {
			Seed   int64 `json:"seed"`
			Detail struct {
				Index int `json:"index"`
			} `json:"detail"`
		}
		if err != nil || json.Unmarshal(b, &f) != nil {
			fmt.Println("replay: cannot read", rp)
			os.Exit(2)
		}
		seed, only = f.Seed, f.Detail.Index
	}

	// 1. the case list is a pure function of (seed, tier): n general projects (the known-finding
	// classes are avoided there) + dedicated projects, each injecting the witness of ONE known class
	var res []*projResult
	addProject := func(i int, inject string) {
		if only >= 0 && i != only {
			return
		}
		name := fmt.Sprintf("s%dp%03d", seed, i)
		size := sizeFor(i)
		stress := i%4 != 3
		if inject != "" {
			size, stress = 2, false
		}
		p := schemagen.BuildProject(schemagen.ProjectOpts{Seed: seed, Idx: i, Name: name, ImportBase: "verif/work/gen/c17/" + name,
			Size: size, Stress: stress, Inject: inject, AllowKnown: os.Getenv("C17_ALLOW_KNOWN") != ""})
		res = append(res, &projResult{P: p, Idx: i, Size: size, Stress: stress, Known: inject, Dir: filepath.Join(genRoot, name), CompErr: map[string]string{}, VetErr: map[string]string{}})
	}
	for i := 0; i < n; i++ {
		addProject(i, "")
	}
	perClass := ev.Pick(1, 3)
	for k, cls := range schemagen.KnownClasses {
		for j := 0; j < perClass; j++ {
			addProject(n+k*perClass+j, cls)
		}
	}
	// 2. harness sanity: the schema must be valid GraphQL SDL
	for _, r := range res {
		var srcs []*ast.Source
		for _, f := range r.P.Schema.Files {
			srcs = append(srcs, &ast.Source{Name: f.Name, Input: f.Text})
		}
		if _, err := gqlparser.LoadSchema(srcs...); err != nil {
			rep.Inconclusive(fmt.Sprintf("harness: schemagen produced a schema gqlparser rejects (project %s): %v", r.P.Name, err))
			dump, _ := json.MarshalIndent(r.P.Schema.Files, "", " ")
			os.WriteFile(filepath.Join(root, "work", "tmp", "c17-invalid-"+r.P.Name+".json"), dump, 0o644)
			os.Exit(rep.Finish(0, 0))
		}
	}

	// 3. generate, one child process per project
	t0 := time.Now()
	var wg sync.WaitGroup
	sem := make(chan struct{}, par)
	for _, r := range res {
		wg.Add(1)
		go func(r *projResult) {
			defer wg.Done()
			sem <- struct{}{}
			defer func() { <-sem }()
			if err := r.P.Write(r.Dir); err != nil {
				r.GenExit, r.GenOut = 125, "harness: "+err.Error()
				return
			}
			var timedOut bool
			r.GenExit, r.GenOut, timedOut = run(root, 10*time.Minute, goEnv(), gendrv, "-dir", r.Dir, "-name", r.P.Name)
			if timedOut {
				r.GenExit = 124
			}
			filepath.Walk(r.Dir, func(p string, info os.FileInfo, err error) error {
				if err == nil && !info.IsDir() && strings.HasSuffix(p, ".go") && filepath.Base(p) != "bound.go" {
					r.GoFiles++
					r.GoBytes += info.Size()
				}
				return nil
			})
		}(r)
	}
	wg.Wait()
	genWall := time.Since(t0).Seconds()

	// 4. type-check everything that generated, in one go build
	var okRes []*projResult
	for _, r := range res {
		if r.GenExit == 0 {
			okRes = append(okRes, r)
		}
	}
	t1 := time.Now()
	build := func(verb string, rs []*projResult) (string, bool) {
		args := []string{verb, "-tags", "verif"}
		for _, r := range rs {
			args = append(args, "./work/gen/c17/"+r.P.Name+"/...")
		}
		_, out, to := run(root, 30*time.Minute, goEnv(), "go", args...)
		return out, to
	}
	byName := map[string]*projResult{}
	for _, r := range res {
		byName[r.P.Name] = r
	}
	reProj := regexp.MustCompile(`work/gen/c17/(s\d+p\d+)`)
	attribute := func(out string, vet bool) (unattributed string) {
		cur := ""
		for _, line := range strings.Split(out, "\n") {
			if strings.TrimSpace(line) == "" {
				continue
			}
			if strings.HasPrefix(line, "# ") {
				f := strings.Fields(strings.TrimPrefix(line, "# "))
				cur = ""
				if len(f) > 0 {
					cur = strings.Trim(f[0], "[]")
				}
				continue
			}
			m := reProj.FindStringSubmatch(cur)
			if m == nil {
				m = reProj.FindStringSubmatch(line)
			}
			if m == nil || byName[m[1]] == nil {
				unattributed += line + "\n"
				continue
			}
			pkg := cur
			if pkg == "" {
				pkg = "verif/work/gen/c17/" + m[1]
			}
			if vet {
				byName[m[1]].VetErr[pkg] += line + "\n"
			} else {
				byName[m[1]].CompErr[pkg] += line + "\n"
			}
		}
		return
	}
	if len(okRes) > 0 {
		out, to := build("build", okRes)
		if to {
			rep.Inconclusive("go build of the generated packages did not finish within 30 minutes")
		}
		if un := attribute(out, false); un != "" {
			// a load error (import cycle, missing package) aborts the whole build: redo per project
			for _, r := range okRes {
				r.CompErr = map[string]string{}
			}
			var wg2 sync.WaitGroup
			sem2 := make(chan struct{}, 8)
			var mu sync.Mutex
			for _, r := range okRes {
				wg2.Add(1)
				go func(r *projResult) {
					defer wg2.Done()
					sem2 <- struct{}{}
					defer func() { <-sem2 }()
					code, out, _ := run(root, 30*time.Minute, goEnv(), "go", "build", "-tags", "verif", "./work/gen/c17/"+r.P.Name+"/...")
					if code != 0 {
						mu.Lock()
						if un := attribute(out, false); un != "" {
							r.CompErr["verif/work/gen/c17/"+r.P.Name] += un
						}
						mu.Unlock()
					}
				}(r)
			}
			wg2.Wait()
			rep.Count("per_project_rebuilds_after_unattributed_build_output", 1)
		}
		if ev.Tier() == "thorough" || os.Getenv("C17_VET") != "" {
			var clean []*projResult
			for _, r := range okRes {
				if len(r.CompErr) == 0 {
					clean = append(clean, r)
				}
			}
			if len(clean) > 0 {
				out, _ := build("vet", clean)
				if un := attribute(out, true); un != "" {
					rep.Set("vet_unattributed_output", un)
				}
				rep.Count("packages_vetted_projects", int64(len(clean)))
			}
		}
	}
	buildWall := time.Since(t1).Seconds()

	// 5. verdicts and evidence
	var evals int64
	for _, r := range res {
		evals++
		s := r.P.Schema
		var schemaText string
		for _, f := range s.Files {
			schemaText += f.Name + "\n" + f.Text
			rep.Count("schema_bytes", int64(len(f.Text)))
		}
		rep.Count("schema_files", int64(len(s.Files)))
		rep.Count("schema_types", int64(s.TypeCount))
		rep.Count("generated_go_files", int64(r.GoFiles))
		rep.Count("generated_go_bytes", r.GoBytes)
		for _, l := range r.P.Cfg.Labels() {
			rep.Count("projects_with:"+l, 1)
		}
		for k, v := range s.Feat {
			rep.Count("feature:"+k, int64(v))
			rep.Count("projects_with_feature:"+k, 1)
		}
		for k, v := range s.Stress {
			rep.Count("stress:"+k, int64(v))
			rep.Count("projects_with_stress:"+k, 1)
		}
		f := s.Feat
		if f["interface"] > 0 && f["union"] > 0 && f["input"] > 0 && f["enum"] > 0 && (f["argument_default"]+f["input_field_default"]) > 0 {
			hasDir := false
			for k := range f {
				if strings.HasPrefix(k, "directive_applied_") {
					hasDir = true
				}
			}
			if hasDir {
				rep.Distinct("nontrivial_projects", hashOf(schemaText, r.P.YAML))
			}
		}
		if r.Known != "" {
			state := "passed"
			if r.GenExit != 0 || len(r.CompErr) > 0 {
				state = "failed"
			}
			if !knownHolds(r) {
				state += "_predicate_false"
			}
			rep.Count("known_class_projects:"+r.Known+":"+state, 1)
			rep.Count("known_class_projects", 1)
		} else {
			rep.Count("general_projects", 1)
		}
		base := map[string]any{"project": r.P.Name, "index": r.Idx, "known_class": r.Known, "size": r.Size, "stress": r.Stress,
			"config": r.P.YAML, "schema_files": s.Files, "bound_go": s.BoundGo, "options": r.P.Cfg.Labels()}
		switch {
		case r.GenExit == 124:
			rep.Inconclusive("generator child did not finish within 10 minutes: " + r.P.Name)
		case r.GenExit == 125:
			rep.Inconclusive(r.GenOut)
		case r.GenExit == 4 || strings.Contains(r.GenOut, "GENDRV-PANIC"):
			rep.Count("generator_panics", 1)
			base["generator_output"] = tail(r.GenOut, 6000)
			rep.Violate(classify("gen-panic", after(r.GenOut, "GENDRV-PANIC:"), r), base)
		case r.GenExit != 0:
			rep.Count("generator_errors", 1)
			base["generator_output"] = tail(r.GenOut, 6000)
			base["generator_exit"] = r.GenExit
			rep.Violate(classify("gen-error", after(r.GenOut, "GENDRV-ERROR:"), r), base)
		default:
			rep.Count("generated_ok", 1)
			if len(r.CompErr) == 0 {
				rep.Count("compiled_ok", 1)
			}
			for pkg, e := range r.CompErr {
				rep.Count("packages_failing_to_compile", 1)
				groups := map[string]string{}
				var order []string
				cur := ""
				for _, line := range strings.Split(e, "\n") {
					if strings.TrimSpace(line) == "" {
						continue
					}
					if strings.Contains(line, ".go:") || cur == "" { // continuation lines (tab-indented) stay with their error
						if !strings.HasPrefix(line, "\t") {
							cur = classify("compile", line, r)
						}
					}
					if _, ok := groups[cur]; !ok {
						order = append(order, cur)
					}
					groups[cur] += line + "\n"
				}
				for _, sig := range order {
					if sig == "compile:too-many-errors" && len(order) > 1 {
						continue
					}
					b2 := map[string]any{}
					for k, v := range base {
						b2[k] = v
					}
					b2["package"] = pkg
					b2["compile_errors"] = tail(groups[sig], 6000)
					b2["all_errors_of_package"] = tail(e, 6000)
					rep.Violate(sig, b2)
				}
			}
			for pkg, e := range r.VetErr {
				rep.Count("packages_failing_vet", 1)
				b2 := map[string]any{}
				for k, v := range base {
					b2[k] = v
				}
				b2["package"] = pkg
				b2["vet_output"] = tail(e, 6000)
				rep.Violate(signature("vet", e), b2)
			}
		}
		if r.Idx < 3 {
			rep.Sample(map[string]any{"project": r.P.Name, "options": r.P.Cfg.Labels(), "types": s.TypeCount, "files": len(s.Files),
				"stress": s.Stress, "gen_exit": r.GenExit, "go_files": r.GoFiles})
		}
	}
	rep.Set("generation_wall_s", genWall)
	rep.Set("build_wall_s", buildWall)
	rep.Set("projects", len(res))
	rep.Set("generator_parallelism", par)
	var names []string
	for _, o := range schemagen.BoolOptions {
		names = append(names, o)
	}
	sort.Strings(names)
	rep.Set("boolean_options_sampled", names)
	if os.Getenv("C17_KEEP") == "" {
		os.RemoveAll(genRoot)
	}
	os.Exit(rep.Finish(evals, int64(rep.DistinctLen("nontrivial_projects"))))
}

// knownHolds is the signature predicate of a dedicated known-finding project: computed from the
// generated project (the witness was injected, and the configuration has the option of the
// failing conjunction), never from the error text.
func knownHolds(r *projResult) bool {
	if r.Known == "" || r.P.Schema.Feat["inject:"+r.Known] == 0 {
		return false
	}
	c := r.P.Cfg
	switch r.Known {
	case "enum_values_bind":
		return c.Autobind && c.Bools["use_function_syntax_for_execution_context"] == 1 && r.P.Schema.Feat["autobind_enum_values"] > 0
	case "enum_values_list":
		return c.Autobind && r.P.Schema.Feat["autobind_enum_values"] > 0
	case "exec_directive_files":
		return c.ExecLayout == "follow-schema" && len(r.P.Schema.Files) >= 2
	case "type_leading_underscore", "panic_arg":
		return c.Resolver != "none"
	case "omit_resolver_fields":
		return c.Bools["omit_resolver_fields"] == 1 && c.Bools["omit_getters"] != 1
	case "root_typed_field":
		return c.Bools["omit_root_models"] == 1
	}
	return true
}

// classify names the failing class of input. A dedicated project whose predicate holds is matched
// against the signature of its class only; every other failure gets the normalised error text.
func classify(kind, msg string, r *projResult) string {
	if knownHolds(r) {
		return schemagen.KnownSignature[r.Known]
	}
	if kind == "compile" && strings.Contains(msg, "too many errors") {
		return "compile:too-many-errors"
	}
	return signature(kind, msg)
}

func tail(s string, n int) string {
	if len(s) > n {
		return s[:n/2] + "\n...\n" + s[len(s)-n/2:]
	}
	return s
}

func after(s, marker string) string {
	if i := strings.Index(s, marker); i >= 0 {
		return s[i+len(marker):]
	}
	return s
}
