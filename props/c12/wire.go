package main

// Strict wire-format parsers used as oracles: HTTP/1.1 response head + chunked transfer coding
// (RFC 9112 §7.1), the WHATWG event-stream grammar, and the multipart/mixed layout.
// None of them uses gqlgen or net/http's client side.

import (
	"bytes"
	"fmt"
	"strconv"
	"strings"
)

type httpResp struct {
	Status  int
	Headers map[string]string // lower-cased names
	Body    []byte            // decoded body
	Chunks  []int             // sizes of the HTTP chunks (each Flush of the server ends one)
	ChunkAt []int             // offset in Body where each chunk starts
	Framing string            // chunked | length | close
}

// parseHTTP parses a complete raw HTTP/1.1 response (connection closed by the server afterwards).
func parseHTTP(raw []byte) (*httpResp, error) {
	i := bytes.Index(raw, []byte("\r\n\r\n"))
	if i < 0 {
		return nil, fmt.Errorf("no end of response head in %d bytes", len(raw))
	}
	head := strings.Split(string(raw[:i]), "\r\n")
	rest := raw[i+4:]
	sl := strings.SplitN(head[0], " ", 3)
	if len(sl) < 2 || !strings.HasPrefix(sl[0], "HTTP/1.") {
		return nil, fmt.Errorf("bad status line %q", head[0])
	}
	code, err := strconv.Atoi(sl[1])
	if err != nil {
		return nil, fmt.Errorf("bad status code in %q", head[0])
	}
	r := &httpResp{Status: code, Headers: map[string]string{}}
	for _, h := range head[1:] {
		j := strings.IndexByte(h, ':')
		if j <= 0 {
			return nil, fmt.Errorf("bad header line %q", h)
		}
		r.Headers[strings.ToLower(h[:j])] = strings.TrimSpace(h[j+1:])
	}
	switch {
	case strings.EqualFold(r.Headers["transfer-encoding"], "chunked"):
		r.Framing = "chunked"
		p := 0
		for {
			j := bytes.Index(rest[p:], []byte("\r\n"))
			if j < 0 {
				return r, fmt.Errorf("chunked body: missing chunk-size line at offset %d (body truncated after %d decoded bytes)", p, len(r.Body))
			}
			szs := string(rest[p : p+j])
			if szs == "" || len(szs) > 8 || strings.Trim(szs, "0123456789abcdefABCDEF") != "" {
				return r, fmt.Errorf("chunked body: bad chunk-size line %q at offset %d", trunc(szs, 40), p)
			}
			sz, _ := strconv.ParseInt(szs, 16, 64)
			p += j + 2
			if sz == 0 {
				if !bytes.Equal(rest[p:], []byte("\r\n")) {
					return r, fmt.Errorf("chunked body: %d unexpected bytes after the last-chunk (want CRLF, got %q)", len(rest)-p, trunc(string(rest[p:]), 40))
				}
				return r, nil
			}
			if p+int(sz)+2 > len(rest) {
				return r, fmt.Errorf("chunked body: chunk of %d bytes at offset %d truncated (have %d)", sz, p, len(rest)-p)
			}
			r.Chunks = append(r.Chunks, int(sz))
			r.ChunkAt = append(r.ChunkAt, len(r.Body))
			r.Body = append(r.Body, rest[p:p+int(sz)]...)
			p += int(sz)
			if rest[p] != '\r' || rest[p+1] != '\n' {
				return r, fmt.Errorf("chunked body: chunk data not followed by CRLF at offset %d (got %q)", p, trunc(string(rest[p:]), 20))
			}
			p += 2
		}
	case r.Headers["content-length"] != "":
		r.Framing = "length"
		n, err := strconv.Atoi(r.Headers["content-length"])
		if err != nil || n != len(rest) {
			return r, fmt.Errorf("content-length %q but %d body bytes", r.Headers["content-length"], len(rest))
		}
		r.Body = rest
		return r, nil
	default:
		r.Framing = "close"
		r.Body = rest
		return r, nil
	}
}

func trunc(s string, n int) string {
	if len(s) > n {
		return s[:n] + "…"
	}
	return s
}

// ---- event stream ------------------------------------------------------------------------

type sseBlock struct {
	Kind     string // comment | next | complete | empty
	Data     []byte
	Comments []string
	At       int // byte offset of the block in the body
}

type sseProblem struct {
	Kind string // splice | malformed | truncated | unexpected-field
	Why  string
}

// parseSSE parses body with the WHATWG event-stream grammar
//
//	stream = [bom] *event ; event = *( comment / field ) end-of-line
//	comment = colon *any-char end-of-line ; field = 1*name-char [ colon [ space ] *any-char ] end-of-line
//	end-of-line = ( cr lf / cr / lf )
//
// restricted to what the property allows on a graphql-sse stream: a block (event) is either made
// of comment lines only, or is exactly "event: next" + one "data:" line, or exactly
// "event: complete". A block mixing comment lines and fields is a keep-alive spliced into an event.
func parseSSE(body []byte) ([]sseBlock, *sseProblem) {
	var blocks []sseBlock
	// split into lines with their terminators
	type ln struct {
		s  string
		at int
	}
	var lines []ln
	p := 0
	for p < len(body) {
		j := bytes.IndexAny(body[p:], "\r\n")
		if j < 0 {
			return blocks, &sseProblem{"truncated", fmt.Sprintf("stream ends inside a line without end-of-line: %q", trunc(string(body[p:]), 80))}
		}
		lines = append(lines, ln{string(body[p : p+j]), p})
		if body[p+j] == '\r' && p+j+1 < len(body) && body[p+j+1] == '\n' {
			p += j + 2
		} else {
			p += j + 1
		}
	}
	var cur []ln
	flush := func() *sseProblem {
		b := sseBlock{}
		if len(cur) == 0 {
			b.Kind = "empty"
			blocks = append(blocks, b)
			return nil
		}
		b.At = cur[0].at
		var fields [][2]string
		for _, l := range cur {
			if strings.HasPrefix(l.s, ":") {
				b.Comments = append(b.Comments, l.s[1:])
				continue
			}
			name, val := l.s, ""
			if k := strings.IndexByte(l.s, ':'); k >= 0 {
				name, val = l.s[:k], l.s[k+1:]
				val = strings.TrimPrefix(val, " ")
			}
			fields = append(fields, [2]string{name, val})
		}
		switch {
		case len(fields) == 0:
			b.Kind = "comment"
		case len(b.Comments) > 0:
			return &sseProblem{"splice", fmt.Sprintf("comment line(s) %q inside an event block at offset %d: %q", b.Comments, b.At, trunc(blockText(cur[0].at, body), 160))}
		case len(fields) == 2 && fields[0] == [2]string{"event", "next"} && fields[1][0] == "data":
			b.Kind = "next"
			b.Data = []byte(fields[1][1])
		case len(fields) == 1 && fields[0] == [2]string{"event", "complete"}:
			b.Kind = "complete"
		default:
			return &sseProblem{"malformed", fmt.Sprintf("block at offset %d is neither a comment, a next event nor a complete event: %q", b.At, trunc(blockText(cur[0].at, body), 200))}
		}
		blocks = append(blocks, b)
		return nil
	}
	for _, l := range lines {
		if l.s == "" {
			if pr := flush(); pr != nil {
				return blocks, pr
			}
			cur = nil
			continue
		}
		cur = append(cur, l)
	}
	if len(cur) > 0 {
		return blocks, &sseProblem{"truncated", fmt.Sprintf("stream ends inside an event (no terminating blank line): %q", trunc(blockText(cur[0].at, body), 160))}
	}
	return blocks, nil
}

func blockText(at int, body []byte) string {
	end := at + 400
	if end > len(body) {
		end = len(body)
	}
	return string(body[at:end])
}

// ---- multipart/mixed ---------------------------------------------------------------------

// parseMultipartRaw checks the exact layout the transport promises:
//
//	"--" B CRLF part *( CRLF "--" B CRLF part ) CRLF "--" B "--" CRLF <end>
//	part = "Content-Type: application/json" CRLF CRLF json-text   (json-text has no raw CR/LF)
func parseMultipartRaw(body []byte, boundary string) (parts [][]byte, closings int, err error) {
	open := "--" + boundary + "\r\n"
	delim := "\r\n--" + boundary
	closings = bytes.Count(body, []byte(delim+"--\r\n"))
	if !bytes.HasPrefix(body, []byte(open)) {
		return nil, closings, fmt.Errorf("body does not start with the dash-boundary line: %q", trunc(string(body), 60))
	}
	p := len(open)
	const hdr = "Content-Type: application/json\r\n\r\n"
	for {
		if !bytes.HasPrefix(body[p:], []byte(hdr)) {
			return parts, closings, fmt.Errorf("part %d at offset %d does not start with the JSON content-type header: %q", len(parts), p, trunc(string(body[p:]), 60))
		}
		p += len(hdr)
		j := bytes.Index(body[p:], []byte(delim))
		if j < 0 {
			return parts, closings, fmt.Errorf("part %d at offset %d is not terminated by a boundary (stream ends with %q)", len(parts), p, trunc(string(body[max(p, len(body)-60):]), 60))
		}
		content := body[p : p+j]
		if bytes.ContainsAny(content, "\r\n") {
			return parts, closings, fmt.Errorf("part %d contains a raw CR/LF: %q", len(parts), trunc(string(content), 120))
		}
		parts = append(parts, content)
		p += j + len(delim)
		switch {
		case bytes.HasPrefix(body[p:], []byte("--\r\n")):
			p += 4
			if p != len(body) {
				return parts, closings, fmt.Errorf("%d bytes after the closing boundary: %q", len(body)-p, trunc(string(body[p:]), 80))
			}
			return parts, closings, nil
		case bytes.HasPrefix(body[p:], []byte("\r\n")):
			p += 2
			if p == len(body) {
				return parts, closings, fmt.Errorf("stream ends after an opening boundary: closing boundary missing (%d parts)", len(parts))
			}
		default:
			return parts, closings, fmt.Errorf("boundary at offset %d followed by %q", p, trunc(string(body[p:]), 20))
		}
	}
}
