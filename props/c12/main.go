// C12: streamed HTTP responses (SSE, multipart/mixed) are well-framed under any timing.
//
// The tx farm probe (generated from the repo's current templates) is served by gqlgen's real
// handler.New + transport.SSE / transport.MultipartMixed behind a real httptest.Server. A raw TCP
// client (hand-written HTTP/1.1 request, own chunked decoder) reads the response bytes; strict
// parsers written from the WHATWG event-stream grammar and the multipart layout decide. The list
// of payloads the transport was handed (ground truth for "exactly once, in order") is recorded by
// a graphql.ResponseMiddleware, i.e. in production order, independent of wall-clock time.
// Cases run in crash-isolated child processes (internal/kids) under the race detector.
package main

import (
	"bytes"
	"context"
	"encoding/json"
	"fmt"
	"io"
	"log"
	"math/rand"
	"mime"
	"mime/multipart"
	"net"
	"net/http"
	"net/http/httptest"
	"os"
	"runtime"
	"strings"
	"sync"
	"sync/atomic"
	"time"

	"github.com/99designs/gqlgen/graphql"
	"github.com/99designs/gqlgen/graphql/handler"
	"github.com/99designs/gqlgen/graphql/handler/transport"

	"verif/internal/ev"
	"verif/internal/kids"
	"verif/internal/sjson"
	tx "verif/work/farm/cur/tx"
)

// ---- cases -------------------------------------------------------------------------------

type Case struct {
	Idx  int    `json:"idx"`
	Kind string `json:"kind"` // sse | mp
	Seed int64  `json:"seed"`
	// sse
	KAus   int    `json:"keepalive_us,omitempty"` // 0 = off
	Op     string `json:"op,omitempty"`           // sub | query | defer | badquery | suberr
	N      int    `json:"n,omitempty"`
	Sizes  []int  `json:"sizes,omitempty"`
	Timing string `json:"timing,omitempty"` // burst | 1us | 100us | 1ms | jitter
	// multipart
	DTms     int    `json:"delivery_timeout_ms,omitempty"` // 0 = default
	Boundary string `json:"boundary,omitempty"`
	Shape    string `json:"shape,omitempty"`
	K        int    `json:"k,omitempty"`
	M        int    `json:"m,omitempty"`
	Release  string `json:"release,omitempty"` // burst | chain | 100us | 1ms | 3ms | jitter
	// both
	Disconnect int `json:"disconnect_after,omitempty"` // <0: read to the end; else close after that many raw bytes
	// SlowW: the ResponseWriter hands every Write to the connection in two pieces with a yield in
	// between (a writer may make partial progress); two unsynchronised writers then interleave on the wire
	SlowW bool `json:"two_piece_writer,omitempty"`
	// CtxEnd: the server ends the request context (deadline middleware / shutdown) after that many
	// payloads were handed to the transport, while the client stays connected (0 = never)
	CtxEnd int `json:"server_ends_context_after,omitempty"`
}

var keepAlives = []int{0, 1, 50, 1000}
var timings = []string{"burst", "1us", "100us", "1ms", "jitter"}
var releases = []string{"burst", "chain", "100us", "1ms", "3ms", "jitter"}
var shapes = []string{"flat", "nested", "two", "many", "none", "top", "mixed"}

func genCases(seed int64, n int) []Case {
	out := make([]Case, 0, n)
	for i := 0; i < n; i++ {
		r := rand.New(rand.NewSource(seed*1000003 + int64(i)*7919 + 17))
		c := Case{Idx: i, Seed: seed*1000003 + int64(i), Disconnect: -1}
		cls := i % 20
		switch {
		case cls < 12: // SSE subscription stream
			c.Kind, c.Op = "sse", "sub"
			c.KAus = keepAlives[(i/20+cls)%4]
			c.Timing = timings[(i/3)%5]
			c.N = []int{0, 1, 2, 3, 5, 8, 13, 20, 35, 50}[r.Intn(10)]
			// size class of the stream: tiny / around the 2 KiB + 4 KiB response buffers / big / huge
			var menu []int
			switch sc := r.Intn(20); {
			case sc < 6:
				menu = []int{10, 10, 40, 100}
			case sc < 13:
				menu = []int{10, 100, 1000, 2030, 2040, 2048, 4080, 4090, 4096, 5000}
			case sc < 18:
				menu = []int{10, 1000, 4096, 16384, 65536}
			default:
				menu = []int{10, 100, 4096, 65536, 204800}
			}
			budget := 450 << 10
			for k := 0; k < c.N; k++ {
				s := menu[r.Intn(len(menu))]
				if s > budget {
					s = 10 + r.Intn(200)
				}
				budget -= s
				c.Sizes = append(c.Sizes, s)
			}
		case cls == 12: // other operations over SSE
			c.Kind = "sse"
			c.Op = []string{"query", "defer", "badquery", "defernull", "suberr", "opreject", "defernull", "defer"}[(i/20)%8]
			c.KAus = keepAlives[r.Intn(4)]
			c.K = 1 + r.Intn(6)
			c.Release = releases[r.Intn(len(releases))]
		case cls < 18: // multipart/mixed with @defer
			c.Kind = "mp"
			c.DTms = []int{0, 1, 5}[(i/20+cls)%3]
			c.Boundary = []string{"", "graphql", "x-y_z"}[r.Intn(3)]
			c.Shape = shapes[(i/20*5+cls-13)%len(shapes)]
			c.K = 1 + r.Intn(8)
			c.M = 1 + r.Intn(5)
			if c.Shape == "many" {
				c.K, c.M = 3+r.Intn(6), 3+r.Intn(6)
			}
			c.Release = releases[r.Intn(len(releases))]
			if cls == 17 && (i/20)%2 == 1 {
				// a multi-event operation (subscription) through the multipart/mixed transport
				c.Shape = "sub"
				c.DTms = []int{1, 5, 50}[(i/40)%3]
				c.N = 2 + r.Intn(7)
				c.Timing = timings[r.Intn(5)]
				sz := []int{10, 100, 1000}[r.Intn(3)]
				for k := 0; k < c.N; k++ {
					c.Sizes = append(c.Sizes, sz) // equal lengths: a reused buffer shows as wrong content, not as broken JSON
				}
			}
		default: // client disconnects after k bytes
			if cls == 18 {
				c.Kind, c.Op = "sse", "sub"
				c.KAus = keepAlives[1+r.Intn(3)]
				c.Timing = timings[r.Intn(5)]
				c.N = 5 + r.Intn(40)
				for k := 0; k < c.N; k++ {
					c.Sizes = append(c.Sizes, []int{10, 100, 3000, 20000}[r.Intn(4)])
				}
			} else {
				c.Kind = "mp"
				c.DTms = []int{0, 1, 5}[r.Intn(3)]
				c.Shape = []string{"flat", "nested", "many"}[r.Intn(3)]
				c.K, c.M = 2+r.Intn(6), 2+r.Intn(4)
				c.Release = releases[r.Intn(len(releases))]
			}
			c.Disconnect = []int{0, 1, 17, 120, 200, 400, 1000, 5000, 30000}[r.Intn(9)]
		}
		// derived without consuming the case's randomness
		if c.Kind == "mp" && c.Shape == "none" && (i/20)%2 == 0 {
			c.Op = "opreject" // an accepted operation answered with an errors-only payload
		}
		if c.Disconnect < 0 && i%5 == 2 {
			c.SlowW = true
		}
		if c.Kind == "sse" && c.Op == "sub" && c.Disconnect < 0 && c.N >= 2 && i%7 == 3 {
			c.CtxEnd = 1 + i%c.N
		}
		out = append(out, c)
	}
	return out
}

// ---- per-request state (harness side) ------------------------------------------------------

type prodRec struct {
	Label   string
	Path    string // JSON of the path
	Data    []byte
	HasNext *bool
	NErrors int
}

type state struct {
	c          *Case
	mu         sync.Mutex
	cond       *sync.Cond
	produced   []prodRec
	gates      map[string]chan struct{}
	gateOrder  []string // gate keys in the order resolvers reached them
	consumed   atomic.Int64
	prodExit   atomic.Bool
	ctxDone    atomic.Bool
	handlerRet chan struct{}
	recovered  []string
	cancel     context.CancelFunc
	overlaps   atomic.Int64 // writes that began while another write to the same response was in progress
	inWrite    atomic.Int64
}

// twoPieceWriter passes every Write on in two pieces and yields in between; it also counts writes
// that overlap in time (a monitor on the ResponseWriter, which net/http documents as not safe for
// concurrent use).
type twoPieceWriter struct {
	http.ResponseWriter
	st *state
}

func (t *twoPieceWriter) Write(p []byte) (int, error) {
	if t.st.inWrite.Add(1) > 1 {
		t.st.overlaps.Add(1)
	}
	defer t.st.inWrite.Add(-1)
	if len(p) < 2 {
		return t.ResponseWriter.Write(p)
	}
	h := len(p) / 2
	n, err := t.ResponseWriter.Write(p[:h])
	if err != nil {
		return n, err
	}
	runtime.Gosched()
	time.Sleep(30 * time.Microsecond)
	m, err := t.ResponseWriter.Write(p[h:])
	return n + m, err
}

func (t *twoPieceWriter) Flush() {
	if t.st.inWrite.Add(1) > 1 {
		t.st.overlaps.Add(1)
	}
	defer t.st.inWrite.Add(-1)
	if f, ok := t.ResponseWriter.(http.Flusher); ok {
		f.Flush()
	}
}

func newState(c *Case) *state {
	s := &state{c: c, gates: map[string]chan struct{}{}, handlerRet: make(chan struct{})}
	s.cond = sync.NewCond(&s.mu)
	return s
}

func (s *state) gate(key string) chan struct{} {
	s.mu.Lock()
	defer s.mu.Unlock()
	g := s.gates[key]
	if g == nil {
		g = make(chan struct{})
		s.gates[key] = g
	}
	return g
}

func (s *state) release(key string) {
	g := s.gate(key)
	select {
	case <-g:
	default:
		close(g)
	}
}

type ctxKey struct{}

var states sync.Map // X-Case header -> *state

func stateFrom(ctx context.Context) *state {
	s, _ := ctx.Value(ctxKey{}).(*state)
	return s
}

// payload text of event i: JSON-hostile on purpose (quotes, escapes, text that looks like SSE / MIME
// framing, multi-byte runes) so a parser that resynchronises on payload text would be caught.
func payloadText(seed int64, i, size int) string {
	// also printf verbs: a payload must never be interpreted as a format string
	const alphabet = "abcdefghij\"\\/\n\r\t: ping\n\nevent: complete\n\ndata: {}\r\n--graphql--\r\n<>&é漢🙂 %d%s%%%v100%\u2028"
	var blk strings.Builder
	r := rand.New(rand.NewSource(seed + int64(i)*31))
	rs := []rune(alphabet)
	for blk.Len() < 509 {
		if r.Intn(4) == 0 {
			blk.WriteRune(rs[r.Intn(len(rs))])
		} else {
			blk.WriteByte(byte('a' + r.Intn(26)))
		}
	}
	b := blk.String()
	var sb strings.Builder
	sb.Grow(size + 520)
	fmt.Fprintf(&sb, "%d:", i)
	for sb.Len() < size {
		sb.WriteString(b)
	}
	out := sb.String()
	if len(out) > size && size > 8 {
		out = strings.ToValidUTF8(out[:size], "")
	}
	return out
}

func pause(timing string, r *rand.Rand) {
	switch timing {
	case "burst":
	case "1us":
		time.Sleep(time.Microsecond)
	case "100us":
		time.Sleep(100 * time.Microsecond)
	case "1ms":
		time.Sleep(time.Millisecond)
	case "3ms":
		time.Sleep(3 * time.Millisecond)
	case "jitter":
		switch r.Intn(6) {
		case 0:
		case 1:
			runtime.Gosched()
		case 2:
			time.Sleep(time.Microsecond)
		case 3:
			time.Sleep(time.Duration(20+r.Intn(200)) * time.Microsecond)
		case 4:
			time.Sleep(time.Millisecond)
		case 5:
			time.Sleep(time.Duration(r.Intn(4000)) * time.Microsecond)
		}
	}
}

func resolvers() *tx.Stub {
	s := &tx.Stub{}
	s.QueryResolver.Q1 = func(ctx context.Context) (string, error) { return "one", nil }
	s.QueryResolver.Q2 = func(ctx context.Context) (string, error) { return "two", nil }
	s.QueryResolver.Q3 = func(ctx context.Context) (string, error) { return "three", nil }
	s.QueryResolver.Items = func(ctx context.Context, n int) ([]*tx.Item, error) {
		out := make([]*tx.Item, n)
		for i := range out {
			id := fmt.Sprintf("i%d", i)
			out[i] = &tx.Item{ID: id, Name: "n-" + id}
		}
		return out, nil
	}
	s.ItemResolver.Sub = func(ctx context.Context, obj *tx.Item) (*tx.Item, error) {
		return &tx.Item{ID: obj.ID + ".s", Name: "n-" + obj.ID + ".s"}, nil
	}
	s.ItemResolver.Subs = func(ctx context.Context, obj *tx.Item, n int) ([]*tx.Item, error) {
		if n < 0 {
			return nil, fmt.Errorf("no subs for %s", obj.ID)
		}
		out := make([]*tx.Item, n)
		for i := range out {
			id := fmt.Sprintf("%s.%d", obj.ID, i)
			out[i] = &tx.Item{ID: id, Name: "n-" + id}
		}
		return out, nil
	}
	s.ItemResolver.Slow = func(ctx context.Context, obj *tx.Item, ms *int) (*string, error) {
		st := stateFrom(ctx)
		if st != nil {
			st.mu.Lock()
			st.gateOrder = append(st.gateOrder, obj.ID)
			st.mu.Unlock()
			select {
			case <-st.gate(obj.ID):
			case <-ctx.Done():
			}
		}
		v := "tok-" + obj.ID
		return &v, nil
	}
	s.SubscriptionResolver.Ctl = func(ctx context.Context, id string) (<-chan *tx.Event, error) {
		st := stateFrom(ctx)
		if st == nil {
			return nil, fmt.Errorf("no case")
		}
		if st.c.Op == "suberr" {
			return nil, fmt.Errorf("subscription refused")
		}
		ch := make(chan *tx.Event)
		go func() {
			defer st.prodExit.Store(true)
			defer close(ch)
			r := rand.New(rand.NewSource(st.c.Seed))
			for i := 0; i < st.c.N; i++ {
				pause(st.c.Timing, r)
				p := payloadText(st.c.Seed, i, st.c.Sizes[i])
				ev := &tx.Event{Seq: i, Payload: &p, Meta: map[string]any{"i": i, "s": "a b"}, Extra: []any{i, "x"}}
				if st.c.CtxEnd > 0 && i >= st.c.CtxEnd {
					// a resolver that does not watch its context: the event after the server ended the
					// request is on offer for a while; gqlgen takes it or not, but what it takes it delivers
					select {
					case ch <- ev:
						st.consumed.Add(1)
						continue
					case <-time.After(100 * time.Millisecond):
						st.ctxDone.Store(true)
						return
					}
				}
				select {
				case ch <- ev:
					st.consumed.Add(1)
				case <-ctx.Done():
					st.ctxDone.Store(true)
					return
				}
			}
		}()
		return ch, nil
	}
	return s
}

// ---- servers ------------------------------------------------------------------------------

type srvLog struct {
	mu    sync.Mutex
	lines []string
}

func (l *srvLog) Write(p []byte) (int, error) {
	l.mu.Lock()
	l.lines = append(l.lines, string(p))
	l.mu.Unlock()
	return len(p), nil
}

var (
	srvMu   sync.Mutex
	servers = map[string]*httptest.Server{}
	httpLog = &srvLog{}
)

func serverFor(c *Case) *httptest.Server {
	key := fmt.Sprintf("%s/%d/%d/%s", c.Kind, c.KAus, c.DTms, c.Boundary)
	srvMu.Lock()
	defer srvMu.Unlock()
	if s := servers[key]; s != nil {
		return s
	}
	es := tx.NewExecutableSchema(tx.Config{Resolvers: resolvers()})
	h := handler.New(es)
	if c.Kind == "sse" {
		h.AddTransport(transport.SSE{KeepAlivePingInterval: time.Duration(c.KAus) * time.Microsecond})
	} else {
		h.AddTransport(transport.MultipartMixed{Boundary: c.Boundary, DeliveryTimeout: time.Duration(c.DTms) * time.Millisecond})
	}
	h.AddTransport(transport.POST{})
	h.SetRecoverFunc(func(ctx context.Context, err any) error {
		if st := stateFrom(ctx); st != nil {
			buf := make([]byte, 8192)
			buf = buf[:runtime.Stack(buf, false)]
			st.mu.Lock()
			st.recovered = append(st.recovered, fmt.Sprintf("%v\n%s", err, buf))
			st.mu.Unlock()
		}
		return fmt.Errorf("internal system error")
	})
	// an application gate that answers an accepted operation itself, with an errors-only payload
	h.AroundOperations(func(ctx context.Context, next graphql.OperationHandler) graphql.ResponseHandler {
		if st := stateFrom(ctx); st != nil && st.c.Op == "opreject" {
			return graphql.OneShot(graphql.ErrorResponse(ctx, "refused by the application"))
		}
		return next(ctx)
	})
	h.AroundResponses(func(ctx context.Context, next graphql.ResponseHandler) *graphql.Response {
		resp := next(ctx)
		if st := stateFrom(ctx); st != nil && resp != nil {
			pr := prodRec{Label: resp.Label, Data: append([]byte(nil), resp.Data...), NErrors: len(resp.Errors)}
			if resp.Path != nil {
				b, _ := json.Marshal(resp.Path)
				pr.Path = string(b)
			}
			if resp.HasNext != nil {
				v := *resp.HasNext
				pr.HasNext = &v
			}
			st.mu.Lock()
			st.produced = append(st.produced, pr)
			n := len(st.produced)
			st.cond.Broadcast()
			st.mu.Unlock()
			if st.c.CtxEnd > 0 && n == st.c.CtxEnd && st.cancel != nil {
				st.cancel()
			}
		}
		return resp
	})
	mw := http.HandlerFunc(func(w http.ResponseWriter, r *http.Request) {
		v, _ := states.Load(r.Header.Get("X-Case"))
		st, _ := v.(*state)
		if st != nil {
			ctx := context.WithValue(r.Context(), ctxKey{}, st)
			if st.c.CtxEnd > 0 {
				var cancel context.CancelFunc
				ctx, cancel = context.WithCancel(ctx)
				defer cancel()
				st.cancel = cancel
			}
			r = r.WithContext(ctx)
			defer close(st.handlerRet)
			if st.c.SlowW {
				w = &twoPieceWriter{ResponseWriter: w, st: st}
			}
		}
		h.ServeHTTP(w, r)
	})
	ts := httptest.NewUnstartedServer(mw)
	ts.Config.ErrorLog = log.New(httpLog, "", 0)
	ts.Start()
	servers[key] = ts
	return ts
}

// ---- queries ------------------------------------------------------------------------------

// queryFor returns the operation text and the item ids whose `slow` resolver is gated.
func queryFor(c *Case) (q string, gated []string) {
	if c.Kind == "sse" {
		switch c.Op {
		case "sub", "suberr":
			if c.Idx%3 == 1 {
				return fmt.Sprintf(`subscription { ctl(id:"c%d") { seq payload meta extra } }`, c.Idx), nil
			}
			return fmt.Sprintf(`subscription { ctl(id:"c%d") { seq payload } }`, c.Idx), nil
		case "query":
			return `{ q1 q2 items(n:3) { id name } }`, nil
		case "badquery":
			return `{ nosuchfield }`, nil
		case "opreject":
			return `{ q1 q2 }`, nil
		case "defernull":
			// group "a" of every item fails in a non-null field (delivered as data:null with the
			// error) and arrives first; the gated groups "b" follow it
			q = fmt.Sprintf(`{ items(n:%d) { id ... @defer(label:"a") { subs(n:-1) { id } } ... @defer(label:"b") { slow(ms:1) } } }`, c.K)
			for i := 0; i < c.K; i++ {
				gated = append(gated, fmt.Sprintf("i%d", i))
			}
			return q, gated
		case "defer":
			q = fmt.Sprintf(`{ items(n:%d) { id ... @defer(label:"d") { slow(ms:1) } } }`, c.K)
			for i := 0; i < c.K; i++ {
				gated = append(gated, fmt.Sprintf("i%d", i))
			}
			return q, gated
		}
	}
	switch c.Shape {
	case "sub":
		return fmt.Sprintf(`subscription { ctl(id:"c%d") { seq payload } }`, c.Idx), nil
	case "flat":
		q = fmt.Sprintf(`{ items(n:%d) { id ... @defer(label:"f") { slow(ms:1) } } }`, c.K)
		for i := 0; i < c.K; i++ {
			gated = append(gated, fmt.Sprintf("i%d", i))
		}
	case "nested":
		q = fmt.Sprintf(`{ items(n:%d) { id ... @defer(label:"o") { name sub { id ... @defer(label:"in") { slow(ms:2) } } } } }`, c.K)
		for i := 0; i < c.K; i++ {
			gated = append(gated, fmt.Sprintf("i%d.s", i))
		}
	case "two":
		q = fmt.Sprintf(`{ items(n:%d) { id ... @defer(label:"a") { slow(ms:1) } ... @defer(label:"b") { name subs(n:%d) { id } } } }`, c.K, c.M)
		for i := 0; i < c.K; i++ {
			gated = append(gated, fmt.Sprintf("i%d", i))
		}
	case "many":
		q = fmt.Sprintf(`{ items(n:%d) { id subs(n:%d) { id ... @defer(label:"s") { slow(ms:3) name } } } }`, c.K, c.M)
		for i := 0; i < c.K; i++ {
			for j := 0; j < c.M; j++ {
				gated = append(gated, fmt.Sprintf("i%d.%d", i, j))
			}
		}
	case "none":
		q = fmt.Sprintf(`{ q1 items(n:%d) { id name } }`, c.K)
	case "top":
		q = fmt.Sprintf(`{ q1 ... @defer(label:"t") { q2 items(n:%d) { id } } ... @defer { q3 } }`, c.K)
	case "mixed":
		q = fmt.Sprintf(`{ q1 ... @defer(label:"t") { q2 } items(n:%d) { id ... @defer(label:"m") { slow(ms:5) sub { id ... @defer(label:"mi") { name slow(ms:6) } } } } }`, c.K)
		for i := 0; i < c.K; i++ {
			gated = append(gated, fmt.Sprintf("i%d", i), fmt.Sprintf("i%d.s", i))
		}
	}
	return q, gated
}

// releaser opens the gates of the deferred groups in a seeded order with the case's timing.
func releaser(st *state, gated []string, stop <-chan struct{}) {
	c := st.c
	r := rand.New(rand.NewSource(c.Seed ^ 0x5eed))
	order := append([]string(nil), gated...)
	r.Shuffle(len(order), func(i, j int) { order[i], order[j] = order[j], order[i] })
	for _, g := range order {
		select {
		case <-stop:
			return
		default:
		}
		switch c.Release {
		case "burst":
		case "chain":
			// release the next group only when one more payload has been handed to the transport
			// (bounded wait: this shapes the workload, it decides nothing)
			st.mu.Lock()
			n0 := len(st.produced)
			st.mu.Unlock()
			st.release(g)
			deadline := time.Now().Add(50 * time.Millisecond)
			for {
				st.mu.Lock()
				n := len(st.produced)
				st.mu.Unlock()
				if n > n0 || time.Now().After(deadline) {
					break
				}
				time.Sleep(50 * time.Microsecond)
			}
			continue
		default:
			pause(c.Release, r)
		}
		st.release(g)
	}
}

// ---- raw client ---------------------------------------------------------------------------

type rawResult struct {
	Raw      []byte
	Reads    int
	Err      error
	TimedOut bool
}

func rawPost(addr, accept, caseKey string, body []byte, disconnectAfter int) rawResult {
	var res rawResult
	conn, err := net.DialTimeout("tcp", addr, 20*time.Second)
	if err != nil {
		res.Err = err
		return res
	}
	defer conn.Close()
	req := fmt.Sprintf("POST /query HTTP/1.1\r\nHost: c12\r\nAccept: %s\r\nContent-Type: application/json\r\nX-Case: %s\r\nConnection: close\r\nContent-Length: %d\r\n\r\n", accept, caseKey, len(body))
	if _, err := conn.Write(append([]byte(req), body...)); err != nil {
		res.Err = err
		return res
	}
	if disconnectAfter == 0 {
		return res
	}
	buf := make([]byte, 64<<10)
	for {
		conn.SetReadDeadline(time.Now().Add(90 * time.Second))
		n, err := conn.Read(buf)
		if n > 0 {
			res.Reads++
			res.Raw = append(res.Raw, buf[:n]...)
		}
		if disconnectAfter > 0 && len(res.Raw) >= disconnectAfter {
			return res
		}
		if err == io.EOF {
			return res
		}
		if err != nil {
			if ne, ok := err.(net.Error); ok && ne.Timeout() {
				res.TimedOut = true
			}
			res.Err = err
			return res
		}
	}
}

// ---- running one case ---------------------------------------------------------------------

func runCase(c *Case, o *kids.Case) {
	ts := serverFor(c)
	st := newState(c)
	key := fmt.Sprintf("k%d-%d", c.Idx, c.Seed)
	states.Store(key, st)
	defer states.Delete(key)
	q, gated := queryFor(c)
	body, _ := json.Marshal(map[string]any{"query": q})
	accept := "text/event-stream"
	if c.Kind == "mp" {
		accept = "multipart/mixed"
	}
	stop := make(chan struct{})
	var rwg sync.WaitGroup
	if len(gated) > 0 {
		rwg.Add(1)
		go func() { defer rwg.Done(); releaser(st, gated, stop) }()
	}
	res := rawPost(ts.Listener.Addr().String(), accept, key, body, c.Disconnect)
	close(stop)
	rwg.Wait()
	for _, g := range gated { // let every parked resolver go whatever happened
		st.release(g)
	}
	o.Eval(1)
	o.Count("cases_"+c.Kind, 1)
	fail := func(sig, kind, why string, extra map[string]any) {
		d := map[string]any{"case": c, "query": q, "kind": kind, "why": why}
		for k, v := range extra {
			d[k] = v
		}
		o.Violate(sig, d)
	}
	// Signature = class of the failing input. Byte-level corruption of an SSE response whose keep-alive
	// writer is enabled is one class ("sse-keepalive-splice": two writers on one ResponseWriter);
	// everything else is named after the transport and the broken framing rule.
	framingSig := func(kind string) string {
		if c.Kind == "sse" {
			switch kind {
			case "http", "splice", "malformed", "truncated", "read-error", "json", "panic":
				if c.KAus > 0 {
					return "sse-keepalive-splice"
				}
			case "complete", "count":
				// a cleanly framed stream that lacks whole events: with two unsynchronised writers a
				// complete write can vanish; kept apart from byte-level corruption
				if c.KAus > 0 {
					return "sse-keepalive-lost-write"
				}
			}
			return "sse-framing-" + kind
		}
		return "multipart-framing-" + kind
	}

	// the handler must return (it is given a generous watchdog; expiry is inconclusive, never a verdict)
	select {
	case <-st.handlerRet:
	case <-time.After(60 * time.Second):
		o.Inconclusive(fmt.Sprintf("handler of case %d did not return within 60 s after the client finished", c.Idx))
		return
	}
	st.mu.Lock()
	produced := append([]prodRec(nil), st.produced...)
	recovered := append([]string(nil), st.recovered...)
	st.mu.Unlock()
	if c.Op == "opreject" && len(produced) == 0 {
		produced = []prodRec{{NErrors: 1}}
		o.Count("operation_level_error_responses", 1)
	}
	if c.Op == "suberr" && len(produced) == 0 {
		// executor.DispatchOperation answers an error raised while the subscription resolver is invoked
		// with graphql.OneShot(...) that does not pass the response middleware: one payload, data null
		produced = []prodRec{{}}
		o.Count("oneshot_error_responses_not_seen_by_response_middleware", 1)
	}
	if len(recovered) > 0 {
		fail(framingSig("panic"), "panic", "a panic was recovered in the transport handler", map[string]any{"recovered": recovered})
	}

	if c.Disconnect >= 0 {
		o.Count("disconnect_cases", 1)
		o.Count(fmt.Sprintf("disconnect_%s_bytes_read", c.Kind), int64(len(res.Raw)))
		o.Distinct("disconnect_points", fmt.Sprintf("%s/%d", c.Kind, c.Disconnect))
		if c.Kind == "sse" && c.Op == "sub" {
			// wait (harness scheduling only) for the producer to observe cancellation or finish
			for i := 0; i < 600 && !st.prodExit.Load(); i++ {
				time.Sleep(50 * time.Millisecond)
			}
			if !st.prodExit.Load() {
				o.Inconclusive(fmt.Sprintf("case %d: subscription producer still running 30 s after client disconnect and handler return", c.Idx))
			} else if st.ctxDone.Load() {
				o.Count("disconnect_sse_context_cancel_seen_by_resolver", 1)
			}
		}
		o.Distinct("nontrivial", fmt.Sprintf("disc/%s/%d/%d/%s%s", c.Kind, c.KAus, c.DTms, c.Timing, c.Release))
		return
	}
	if res.TimedOut {
		o.Inconclusive(fmt.Sprintf("case %d: no byte for 90 s and no end of stream", c.Idx))
		return
	}
	if res.Err != nil {
		fail(framingSig("read-error"), "read-error", "reading the response failed: "+res.Err.Error(), map[string]any{"bytes": len(res.Raw)})
		return
	}
	hr, herr := parseHTTP(res.Raw)
	if herr != nil {
		fail(framingSig("http"), "http-framing", herr.Error(), map[string]any{"raw_tail": trunc(string(res.Raw[max(0, len(res.Raw)-300):]), 300)})
		return
	}
	o.Count("http_chunks_"+c.Kind, int64(len(hr.Chunks)))
	o.Count("tcp_reads_"+c.Kind, int64(res.Reads))
	if c.SlowW {
		o.Count("two_piece_writer_cases", 1)
		if n := st.overlaps.Load(); n > 0 {
			fail(framingSig("splice"), "concurrent-writers", fmt.Sprintf("%d Write/Flush calls on the ResponseWriter began while another one was in progress", n), nil)
			return
		}
	}
	if c.CtxEnd > 0 {
		o.Count("server_ended_context_cases", 1)
	}
	if c.Kind == "sse" {
		checkSSE(c, o, st, hr, produced, fail, framingSig)
	} else if c.Shape == "sub" {
		checkMPSub(c, o, hr, produced, fail, framingSig)
	} else {
		checkMP(c, o, hr, produced, fail, framingSig)
	}
}

// checkMPSub: a multi-event operation (subscription) through the multipart/mixed transport. Every
// event is handed to the aggregator like an incremental payload; what is judged is delivery: each
// payload exactly once, in order, as valid JSON. The transport writes its closing boundary after
// the first flush (its payloads carry no hasNext) and keeps writing parts after it: that breaks
// "closing boundary exactly once, last" on the unchanged tree and is reported under its own
// signature (known finding).
func checkMPSub(c *Case, o *kids.Case, hr *httpResp, produced []prodRec, fail func(sig, kind, why string, extra map[string]any), fsig func(string) string) {
	mt, params, err := mime.ParseMediaType(hr.Headers["content-type"])
	if hr.Status != 200 || err != nil || mt != "multipart/mixed" {
		fail(fsig("head"), "head", fmt.Sprintf("status %d content-type %q (%v)", hr.Status, hr.Headers["content-type"], err), nil)
		return
	}
	b := params["boundary"]
	o.Count("mp_subscription_streams", 1)
	body := string(hr.Body)
	closings := strings.Count(body, "\r\n--"+b+"--\r\n")
	body = strings.TrimPrefix(body, "--"+b+"\r\n")
	body = strings.ReplaceAll(body, "\r\n--"+b+"--\r\n", "\x00")
	body = strings.ReplaceAll(body, "\r\n--"+b+"\r\n", "\x00")
	var items []*sjson.Value
	for i, part := range strings.Split(body, "\x00") {
		if part == "" {
			continue
		}
		const hdr = "Content-Type: application/json\r\n\r\n"
		if !strings.HasPrefix(part, hdr) {
			fail(fsig("layout"), "layout", fmt.Sprintf("part %d does not start with the JSON content-type header: %q", i, trunc(part, 80)), nil)
			return
		}
		v, err := sjson.Parse([]byte(part[len(hdr):]))
		if err != nil {
			fail(fsig("json"), "invalid-json", fmt.Sprintf("part %d is not valid JSON: %v: %q", i, err, trunc(part[len(hdr):], 200)), nil)
			return
		}
		if inc := v.Get("incremental"); inc != nil && inc.Kind == sjson.Array {
			items = append(items, inc.Arr...)
		} else {
			items = append(items, v)
		}
	}
	if len(items) != len(produced) {
		fail(fsig("count"), "lost-or-duplicated", fmt.Sprintf("%d payloads on the wire, %d handed to the transport", len(items), len(produced)), nil)
		return
	}
	for i, it := range items {
		want := sjson.N()
		if len(produced[i].Data) > 0 {
			if want, err = sjson.Parse(produced[i].Data); err != nil {
				o.Inconclusive("harness: produced data not parsable: " + err.Error())
				return
			}
		}
		if got := it.Get("data"); got == nil || !sjson.Equal(want, got, true) {
			fail(fsig("order"), "order-or-content", fmt.Sprintf("wire payload %d is not the %d-th produced payload: %s", i, i, trunc(sjson.Diff(want, got, true, "data"), 300)), nil)
			return
		}
	}
	o.Count("mp_subscription_payloads_compared", int64(len(items)))
	o.Distinct("nontrivial", fmt.Sprintf("mpsub/%d/%d/%s/%d", c.DTms, c.N, c.Timing, c.Sizes[0]))
	if closings != 1 || !strings.HasSuffix(string(hr.Body), "--"+b+"--\r\n") {
		fail("multipart-subscription-closing-boundary-not-last", "closing-boundary", fmt.Sprintf("closing boundary appears %d times in the response to a %d-event subscription", closings, len(produced)), nil)
	}
}

func sizeClass(c *Case) string {
	mx := 0
	for _, s := range c.Sizes {
		if s > mx {
			mx = s
		}
	}
	switch {
	case mx == 0:
		return "none"
	case mx <= 100:
		return "tiny"
	case mx <= 4096:
		return "buf"
	case mx <= 65536:
		return "big"
	}
	return "huge"
}

func checkSSE(c *Case, o *kids.Case, st *state, hr *httpResp, produced []prodRec, fail func(sig, kind, why string, extra map[string]any), fsig func(string) string) {
	if hr.Status != 200 || !strings.HasPrefix(hr.Headers["content-type"], "text/event-stream") {
		fail(fsig("head"), "head", fmt.Sprintf("status %d content-type %q", hr.Status, hr.Headers["content-type"]), nil)
		return
	}
	blocks, pr := parseSSE(hr.Body)
	if pr != nil {
		fail(fsig(pr.Kind), pr.Kind, pr.Why, map[string]any{"blocks_parsed": len(blocks), "produced": len(produced)})
		return
	}
	var nexts []sseBlock
	completes, afterComplete := 0, 0
	pingsBefore, pingsBetween, pingsAfterLast, pingsAfterComplete, otherComments := 0, 0, 0, 0, 0
	pendingPings := 0
	for _, b := range blocks {
		switch b.Kind {
		case "comment":
			np := 0
			for _, cm := range b.Comments {
				if cm == " ping" {
					np++
				} else if cm != "" {
					otherComments++
				}
			}
			switch {
			case completes > 0:
				pingsAfterComplete += np
			case len(nexts) == 0:
				pingsBefore += np
			default:
				pendingPings += np
			}
		case "empty":
			o.Count("sse_empty_blocks", 1)
		case "next":
			if completes > 0 {
				afterComplete++
			}
			pingsBetween += pendingPings
			pendingPings = 0
			nexts = append(nexts, b)
		case "complete":
			completes++
			pingsAfterLast += pendingPings
			pendingPings = 0
		}
	}
	if otherComments > 0 {
		fail(fsig("malformed"), "malformed", fmt.Sprintf("%d comment lines that are neither the initial ':' nor ': ping'", otherComments), nil)
		return
	}
	if completes != 1 || afterComplete > 0 {
		fail(fsig("complete"), "complete", fmt.Sprintf("%d complete events (want exactly 1), %d next events after complete; %d next events, %d produced", completes, afterComplete, len(nexts), len(produced)), nil)
		return
	}
	// exactly one next per produced payload, in production order
	if len(nexts) != len(produced) {
		fail(fsig("count"), "lost-or-duplicated", fmt.Sprintf("%d next events on the wire, %d payloads handed to the transport", len(nexts), len(produced)), map[string]any{"seqs_on_wire": seqsOf(nexts)})
		return
	}
	for i, b := range nexts {
		v, err := sjson.Parse(b.Data)
		if err != nil {
			fail(fsig("json"), "invalid-json", fmt.Sprintf("next event %d: data is not valid JSON: %v: %q", i, err, trunc(string(b.Data), 200)), nil)
			return
		}
		var want *sjson.Value
		if len(produced[i].Data) > 0 {
			want, err = sjson.Parse(produced[i].Data)
			if err != nil {
				o.Inconclusive("harness: produced data not parsable: " + err.Error())
				return
			}
		} else {
			want = sjson.N()
		}
		got := v.Get("data")
		if got == nil || !sjson.Equal(want, got, true) {
			fail(fsig("order"), "order-or-content", fmt.Sprintf("next event %d does not carry the %d-th produced payload: %s", i, i, trunc(sjson.Diff(want, got, true, "data"), 300)), map[string]any{"seqs_on_wire": seqsOf(nexts)})
			return
		}
		if c.Op == "sub" {
			ctl := got.Get("ctl")
			if ctl == nil || ctl.Get("seq") == nil || ctl.Get("seq").Num != fmt.Sprint(i) {
				fail(fsig("order"), "order", fmt.Sprintf("next event %d carries seq %v", i, ctl), nil)
				return
			}
			if p := ctl.Get("payload"); p == nil || p.Str != payloadText(c.Seed, i, c.Sizes[i]) {
				fail(fsig("content"), "content", fmt.Sprintf("payload text of event %d differs from what the resolver produced", i), nil)
				return
			}
		}
		o.Count("sse_events_checked", 1)
	}
	if (c.Op == "defer" || c.Op == "defernull") && c.CtxEnd == 0 {
		// the number of groups is known by construction: the initial payload and one payload per
		// started group, the last one (and only the last one) saying that nothing follows
		want := 1 + c.K
		if c.Op == "defernull" {
			want = 1 + 2*c.K
		}
		if len(nexts) != want {
			fail(fsig("count"), "lost", fmt.Sprintf("the operation starts %d deferred groups: %d next events expected, %d on the wire", want-1, want, len(nexts)), nil)
			return
		}
		for i, b := range nexts {
			v, _ := sjson.Parse(b.Data)
			hn := v.Get("hasNext")
			if hn == nil || hn.Kind != sjson.Bool || hn.B != (i < len(nexts)-1) {
				fail(fsig("hasnext"), "hasNext", fmt.Sprintf("next event %d of %d carries hasNext %v", i, len(nexts), hn), nil)
				return
			}
		}
		o.Count("sse_defer_streams_with_known_group_count", 1)
	}
	if c.Op == "sub" && c.CtxEnd != 0 && st.prodExit.Load() && int(st.consumed.Load()) != len(nexts) {
		// the server ended the request while the client stayed connected: the stream may be shorter,
		// but every event gqlgen TOOK from the resolver's channel is a payload the operation produced
		fail(fsig("count"), "lost", fmt.Sprintf("gqlgen took %d events from the resolver's channel, %d next events are on the wire (request context ended by the server after %d)", st.consumed.Load(), len(nexts), c.CtxEnd), nil)
		return
	}
	if c.Op == "sub" && len(nexts) != c.N && c.CtxEnd == 0 {
		// (when the server itself ends the request early the stream is shorter by design: what was
		// handed to the transport must be on the wire, followed by complete -- judged above)
		fail(fsig("count"), "lost", fmt.Sprintf("resolver produced %d payloads (consumed %d) but only %d reached the transport/wire", c.N, st.consumed.Load(), len(nexts)), nil)
		return
	}
	// events bigger than the response's 2 KiB / 4 KiB buffers: their write cannot be buffered whole,
	// it reaches the connection in several steps
	span := 0
	for _, b := range nexts {
		if len(b.Data) > 4096 {
			span++
		}
	}
	o.Count("sse_streams", 1)
	o.Count("sse_events_larger_than_response_buffers", int64(span))
	o.Count("sse_pings_total", int64(pingsBefore+pingsBetween+pingsAfterLast+pingsAfterComplete))
	o.Count("sse_pings_between_events", int64(pingsBetween))
	o.Count("sse_pings_before_first_event", int64(pingsBefore))
	o.Count("sse_pings_between_last_event_and_complete", int64(pingsAfterLast))
	o.Count("sse_pings_after_complete", int64(pingsAfterComplete))
	if pingsBetween > 0 {
		o.Count("sse_streams_with_ping_between_events", 1)
		o.Count(fmt.Sprintf("sse_streams_with_ping_between_events_ka%dus", c.KAus), 1)
	}
	if pingsBefore+pingsBetween+pingsAfterLast > 0 && len(nexts) > 0 {
		o.Count("sse_streams_with_ping_and_event_in_one_response", 1)
	}
	o.Count(fmt.Sprintf("sse_streams_ka%dus", c.KAus), 1)
	o.Count("sse_streams_timing_"+c.Timing+c.Release, 1)
	if len(nexts) >= 2 || pingsBetween > 0 {
		o.Distinct("nontrivial", fmt.Sprintf("sse/%s/ka%d/%s%s/n%d/%s/p%v", c.Op, c.KAus, c.Timing, c.Release, len(nexts), sizeClass(c), pingsBetween > 0))
	}
	o.Sample(map[string]any{"case": c.Idx, "kind": "sse", "op": c.Op, "keepalive_us": c.KAus, "timing": c.Timing, "events": len(nexts), "http_chunks": len(hr.Chunks),
		"pings_between_events": pingsBetween, "bytes": len(hr.Body), "events_larger_than_buffers": span})
}

func seqsOf(nexts []sseBlock) []string {
	var out []string
	for _, b := range nexts {
		s := "?"
		if v, err := sjson.Parse(b.Data); err == nil {
			if x := v.Get("data"); x != nil {
				if y := x.Get("ctl"); y != nil && y.Get("seq") != nil {
					s = y.Get("seq").Num
				}
			}
		}
		out = append(out, s)
		if len(out) > 60 {
			break
		}
	}
	return out
}

func checkMP(c *Case, o *kids.Case, hr *httpResp, produced []prodRec, fail func(sig, kind, why string, extra map[string]any), fsig func(string) string) {
	mt, params, err := mime.ParseMediaType(hr.Headers["content-type"])
	if hr.Status != 200 || err != nil || mt != "multipart/mixed" {
		fail(fsig("head"), "head", fmt.Sprintf("status %d content-type %q (%v)", hr.Status, hr.Headers["content-type"], err), map[string]any{"body": trunc(string(hr.Body), 300)})
		return
	}
	boundary := params["boundary"]
	wantB := c.Boundary
	if wantB == "" {
		wantB = "-"
	}
	if boundary != wantB {
		fail(fsig("head"), "head", fmt.Sprintf("boundary parameter %q, configured %q", boundary, wantB), nil)
		return
	}
	parts, closings, perr := parseMultipartRaw(hr.Body, boundary)
	if closings != 1 {
		fail(fsig("closing"), "closing-boundary", fmt.Sprintf("closing boundary appears %d times (want exactly once, last); raw layout: %v", closings, perr), map[string]any{"body_tail": trunc(string(hr.Body[max(0, len(hr.Body)-200):]), 200), "produced": len(produced)})
		return
	}
	if perr != nil {
		fail(fsig("layout"), "layout", perr.Error(), map[string]any{"produced": len(produced)})
		return
	}
	// independent reading with mime/multipart
	mr := multipart.NewReader(bytes.NewReader(hr.Body), boundary)
	var mparts [][]byte
	for {
		p, err := mr.NextRawPart()
		if err == io.EOF {
			break
		}
		if err != nil {
			fail(fsig("mime"), "mime", "mime/multipart: "+err.Error(), map[string]any{"parts_read": len(mparts)})
			return
		}
		if ct := p.Header.Get("Content-Type"); ct != "application/json" {
			fail(fsig("mime"), "mime", fmt.Sprintf("part %d has Content-Type %q", len(mparts), ct), nil)
			return
		}
		b, err := io.ReadAll(p)
		if err != nil {
			fail(fsig("mime"), "mime", "mime/multipart part body: "+err.Error(), nil)
			return
		}
		mparts = append(mparts, b)
	}
	if len(mparts) != len(parts) {
		fail(fsig("mime"), "mime", fmt.Sprintf("mime/multipart sees %d parts, the raw layout %d", len(mparts), len(parts)), nil)
		return
	}
	for i := range parts {
		if !bytes.Equal(parts[i], mparts[i]) {
			fail(fsig("mime"), "mime", fmt.Sprintf("part %d differs between mime/multipart and the raw layout", i), nil)
			return
		}
	}
	if len(produced) == 0 {
		o.Inconclusive(fmt.Sprintf("case %d: response middleware saw no payload", c.Idx))
		return
	}
	// flatten: the initial payload, then every element of every `incremental` array
	type wireItem struct {
		v       *sjson.Value
		part    int
		hasNext *sjson.Value
	}
	var items []wireItem
	aggregated, maxAgg := 0, 0
	for i, p := range parts {
		v, err := sjson.Parse(p)
		if err != nil {
			fail(fsig("json"), "invalid-json", fmt.Sprintf("part %d is not valid JSON: %v: %q", i, err, trunc(string(p), 200)), nil)
			return
		}
		last := i == len(parts)-1
		hn := v.Get("hasNext")
		if i == 0 {
			if v.Get("incremental") != nil {
				fail(fsig("initial"), "initial", "first part is an incremental payload, the initial payload is missing", nil)
				return
			}
			items = append(items, wireItem{v, 0, hn})
		} else {
			inc := v.Get("incremental")
			if inc == nil || inc.Kind != sjson.Array || len(inc.Arr) == 0 || hn == nil || hn.Kind != sjson.Bool {
				fail(fsig("incremental"), "incremental", fmt.Sprintf("part %d is not {incremental:[…],hasNext:bool}: %q", i, trunc(string(p), 200)), nil)
				return
			}
			if len(inc.Arr) > 1 {
				aggregated++
			}
			if len(inc.Arr) > maxAgg {
				maxAgg = len(inc.Arr)
			}
			for _, it := range inc.Arr {
				items = append(items, wireItem{it, i, it.Get("hasNext")})
			}
			// transport-defined: the part's hasNext is that of its last incremental element
			lh := inc.Arr[len(inc.Arr)-1].Get("hasNext")
			if lh == nil || lh.Kind != sjson.Bool || lh.B != hn.B {
				fail(fsig("hasnext"), "hasNext", fmt.Sprintf("part %d: hasNext %v but its last incremental element says %v", i, hn.B, lh), nil)
				return
			}
		}
		// a part announces more iff it is not the last one (closing boundary follows the part with hasNext=false)
		more := hn != nil && hn.Kind == sjson.Bool && hn.B
		if more == last {
			fail(fsig("hasnext"), "hasNext", fmt.Sprintf("part %d of %d has hasNext=%v", i, len(parts), more), map[string]any{"part": trunc(string(p), 300)})
			return
		}
	}
	if len(items) != len(produced) {
		fail(fsig("count"), "lost-or-duplicated", fmt.Sprintf("%d payloads on the wire (1 initial + %d incremental), %d handed to the transport", len(items), len(items)-1, len(produced)), nil)
		return
	}
	for i, it := range items {
		pr := produced[i]
		want := sjson.N()
		if len(pr.Data) > 0 {
			if want, err = sjson.Parse(pr.Data); err != nil {
				o.Inconclusive("harness: produced data not parsable: " + err.Error())
				return
			}
		}
		got := it.v.Get("data")
		lbl, path := "", ""
		if l := it.v.Get("label"); l != nil {
			lbl = l.Str
		}
		if p := it.v.Get("path"); p != nil {
			path = p.Render()
		}
		wantPath := pr.Path
		if wantPath != "" {
			if pv, err := sjson.Parse([]byte(wantPath)); err == nil {
				wantPath = pv.Render()
			}
		}
		if got == nil || !sjson.Equal(want, got, true) || lbl != pr.Label || path != wantPath {
			fail(fsig("order"), "order-or-content", fmt.Sprintf("wire payload %d (label %q path %s) is not the %d-th produced payload (label %q path %s): %s", i, lbl, path, i, pr.Label, wantPath, trunc(sjson.Diff(want, got, true, "data"), 300)), nil)
			return
		}
		if (pr.HasNext == nil) != (it.hasNext == nil) || (pr.HasNext != nil && (it.hasNext.Kind != sjson.Bool || it.hasNext.B != *pr.HasNext)) {
			fail(fsig("hasnext"), "hasNext", fmt.Sprintf("wire payload %d hasNext differs from the produced one", i), nil)
			return
		}
	}
	// how the flushes fell: initial part and an incremental part inside one HTTP chunk
	o.Count("mp_streams", 1)
	o.Count("mp_parts", int64(len(parts)))
	o.Count("mp_payloads_checked", int64(len(items)))
	o.Count("mp_incremental_payloads", int64(len(items)-1))
	o.Count("mp_parts_aggregating_several_payloads", int64(aggregated))
	o.Max("mp_max_payloads_in_one_part", int64(maxAgg))
	if len(parts) > 1 && len(hr.Chunks) < len(parts) {
		o.Count("mp_streams_with_several_parts_in_one_flush", 1)
	}
	if len(parts) > 2 {
		o.Count("mp_streams_with_incremental_parts_in_separate_flushes", 1)
	}
	o.Count(fmt.Sprintf("mp_streams_dt%dms", c.DTms), 1)
	o.Count("mp_streams_shape_"+c.Shape, 1)
	o.Count("mp_streams_release_"+c.Release, 1)
	if len(items) >= 2 {
		o.Distinct("nontrivial", fmt.Sprintf("mp/%s/dt%d/%s/b%s/k%d.%d/parts%d/agg%d", c.Shape, c.DTms, c.Release, c.Boundary, c.K, c.M, len(parts), aggregated))
	}
	o.Sample(map[string]any{"case": c.Idx, "kind": "mp", "shape": c.Shape, "delivery_timeout_ms": c.DTms, "release": c.Release, "payloads": len(items), "parts": len(parts),
		"parts_aggregating_several": aggregated, "http_chunks": len(hr.Chunks)})
}

// ---- main -----------------------------------------------------------------------------------

const batchSize = 50

func main() {
	seed := ev.Seed()
	nCases := ev.Pick(600, 10000)
	cases := genCases(seed, nCases)
	nBatches := (len(cases) + batchSize - 1) / batchSize

	if kids.IsChild() {
		out := kids.Child()
		lo := out.Batch * batchSize
		hi := min(lo+batchSize, len(cases))
		var wg sync.WaitGroup
		sem := make(chan struct{}, 6)
		for i := lo; i < hi; i++ {
			if out.Skip(i) {
				continue
			}
			wg.Add(1)
			sem <- struct{}{}
			go func(i int) {
				defer wg.Done()
				defer func() { <-sem }()
				out.Begin(i)
				t0 := time.Now()
				runCase(&cases[i], out.C(i))
				if os.Getenv("C12_TIMES") != "" {
					b, _ := json.Marshal(cases[i])
					fmt.Fprintf(os.Stderr, "TIME %d ms %s\n", time.Since(t0).Milliseconds(), trunc(string(b), 300))
				}
				out.End(i)
			}(i)
		}
		wg.Wait()
		// let stray transport goroutines (keep-alive writer after the handler returned) run into
		// whatever they run into while this process is still the one that would crash
		time.Sleep(20 * time.Millisecond)
		oc := out.C(-1)
		httpLog.mu.Lock()
		for _, l := range httpLog.lines {
			if strings.Contains(l, "panic") {
				oc.Violate("http-server-panic", map[string]any{"batch": out.Batch, "log": trunc(l, 4000)})
			} else {
				oc.Count("http_server_log_lines", 1)
			}
		}
		httpLog.mu.Unlock()
		out.Close()
		return
	}

	rep := ev.New("C12", "exploration")
	rep.Rule = "a case = one streamed response (transport config x operation x payload count/sizes x production timing x disconnect point) read raw from a real TCP connection; non-trivial = it carried >= 2 payloads or a keep-alive comment between two events, or was a mid-stream disconnect; distinct = distinct (transport, keep-alive / delivery timeout, operation shape, timing, payload count, size class, observed ping-between-events / parts / aggregation) tuples among those"
	rep.Assumptions = []string{
		"ground truth for 'each payload exactly once, in order' is the sequence of *graphql.Response values the transport was handed, recorded by a graphql.ResponseMiddleware (handler.AroundResponses) in the handler goroutine; for subscriptions it is cross-checked against the resolver's own sequence numbers and payload text",
		"SSE blocks allowed by the property: comment-only blocks (':' and ': ping'), 'event: next'+'data:' blocks, one 'event: complete' block; comment blocks after 'complete' are counted, not refuted (the statement forbids events, not comments, after complete)",
		"multipart hasNext semantics are the transport's own: a part's hasNext equals its last incremental element's, and the closing boundary follows the first part with hasNext=false",
		"after a client disconnect only absence of panics / races / stuck handler is checked (no framing oracle)",
		"timing classes shape the workload only; no oracle reads a clock",
	}
	if rp := os.Getenv("VERIF_REPLAY"); rp != "" {
		os.Exit(replay(rep, rp))
	}
	tot := kids.RunBatches(rep, "c12", nBatches, ev.Pick(5, 5), 10*time.Minute)
	for _, cr := range tot.Crashes {
		d := map[string]any{"batch": cr.Batch, "exit": cr.ExitCode, "signal": cr.Signal, "headline": cr.Headline, "frames": cr.Frames, "stderr_tail": cr.Stderr}
		var infl []Case
		for _, i := range cr.InFlight {
			if i >= 0 && i < len(cases) {
				infl = append(infl, cases[i])
			}
		}
		d["cases_in_flight"] = infl
		if cr.TimedOut {
			rep.Inconclusive(fmt.Sprintf("child batch %d exceeded its watchdog", cr.Batch))
			continue
		}
		if fn, ok := cr.HasTargetFrame(); ok {
			rep.Count("child_crashes", 1)
			rep.Violate("crash:"+fn, d)
		} else if cr.Headline != "" {
			rep.Inconclusive(fmt.Sprintf("child batch %d crashed outside gqlgen: %s", cr.Batch, cr.Headline))
			fmt.Println(cr.Stderr)
		} else {
			rep.Inconclusive(fmt.Sprintf("child batch %d exited with code %d: %s", cr.Batch, cr.ExitCode, trunc(cr.Stderr, 2000)))
		}
	}
	for k, v := range tot.Max {
		rep.Set(k, v)
	}
	rep.Set("cases_planned", len(cases))
	rep.Set("pings_observed_between_events", rep.Get("sse_pings_between_events"))
	rep.Set("flush_batches_observed", map[string]int64{"sse_http_chunks": rep.Get("http_chunks_sse"), "multipart_http_chunks": rep.Get("http_chunks_mp"),
		"multipart_parts": rep.Get("mp_parts"), "multipart_parts_aggregating_several_payloads": rep.Get("mp_parts_aggregating_several_payloads")})
	if rep.Get("sse_streams_with_ping_and_event_in_one_response") == 0 && rep.Violations() == 0 && rep.Get("known_finding_hits:sse-keepalive-splice") == 0 {
		rep.Inconclusive("no SSE response contained both a keep-alive ping and an event: the race detector had nothing to decide on")
	}
	os.Exit(rep.Finish(tot.Evals, int64(rep.DistinctLen("nontrivial"))))
}

func replay(rep *ev.Reporter, path string) int {
	b, err := os.ReadFile(path)
	if err != nil {
		fmt.Println("replay:", err)
		return 2
	}
	var f struct {
		Detail struct {
			Case *Case `json:"case"`
		} `json:"detail"`
	}
	if err := json.Unmarshal(b, &f); err != nil || f.Detail.Case == nil {
		fmt.Println("replay: no case in", path, err)
		return 2
	}
	dir, _ := os.MkdirTemp("", "c12replay")
	defer os.RemoveAll(dir)
	os.Setenv("KIDS_BATCH", "0")
	os.Setenv("KIDS_OUT", dir+"/out")
	os.Setenv("KIDS_PROGRESS", dir+"/prog")
	out := kids.Child()
	for i := 0; i < 20; i++ { // timing-dependent: give it a few tries
		out.Begin(i)
		runCase(f.Detail.Case, out.C(i))
		out.End(i)
	}
	out.Close()
	ob, _ := os.ReadFile(dir + "/out")
	nv := strings.Count(string(ob), `"k":"violate"`)
	fmt.Printf("replay: %d of 20 runs of the case refuted\n", nv)
	if nv > 0 {
		rep.Violate("", map[string]any{"case": f.Detail.Case, "replayed_from": path})
	}
	return rep.Finish(20, 2)
}
