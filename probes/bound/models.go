package PKG

import (
	"context"
	"reflect"

	"verif/internal/univ"
)

const probeName = "PKGNAME"

// BA is a hand-written model: gqlgen binds schema fields to its struct fields and methods.
type BA struct {
	Vid   string
	Plain *string
	Count int
	Mo    map[string]any
}

func init() {
	str, strp, i, ip := reflect.TypeOf(""), reflect.TypeOf((*string)(nil)), reflect.TypeOf(0), reflect.TypeOf((*int)(nil))
	_ = ip
	univ.RegisterMethod("bound", "BA", "mctx", strp, univ.MCtxErr)
	univ.RegisterMethod("bound", "BA", "mctxn", str, univ.MCtxErr)
	univ.RegisterMethod("bound", "BA", "mlist", reflect.TypeOf([]string(nil)), univ.MCtxErr)
	univ.RegisterMethod("bound", "BA", "mnoerr", i, univ.MNoErr)
	univ.RegisterMethod("bound", "BA", "mok", str, univ.MVOk)
	univ.RegisterMethod("bound", "BA", "mokn", i, univ.MVOk)
	univ.RegisterMethod("bound", "BA", "marg", strp, univ.MCtxErr)
	univ.RegisterMethod("bound", "BA", "mguard", strp, univ.MCtxErr)
	univ.RegisterMethod("bound", "BA", "mswap", strp, univ.MCtxErr)
	univ.RegisterMethod("bound", "BW", "wa", str, univ.MCtxErr)
	univ.RegisterMethod("bound", "BW", "wb", str, univ.MCtxErr)
	univ.RegisterMethod("bound", "BW", "wc", i, univ.MCtxErr)
	univ.RegisterMethod("bound", "BW", "wd", strp, univ.MCtxErr)
	univ.RegisterMethod("bound", "BW", "we", str, univ.MCtxErr)
}

// BW: only context-taking methods, no resolver field.
type BW struct {
	Vid string
}

func (w *BW) Wa(ctx context.Context) (string, error) {
	v, _, err := univ.Method(ctx, probeName, "BW", w.Vid, "wa", nil)
	return v.Interface().(string), err
}

func (w *BW) Wb(ctx context.Context) (string, error) {
	v, _, err := univ.Method(ctx, probeName, "BW", w.Vid, "wb", nil)
	return v.Interface().(string), err
}

func (w *BW) Wc(ctx context.Context) (int, error) {
	v, _, err := univ.Method(ctx, probeName, "BW", w.Vid, "wc", nil)
	return v.Interface().(int), err
}

func (w *BW) Wd(ctx context.Context) (*string, error) {
	v, _, err := univ.Method(ctx, probeName, "BW", w.Vid, "wd", nil)
	return v.Interface().(*string), err
}

func (w *BW) We(ctx context.Context) (string, error) {
	v, _, err := univ.Method(ctx, probeName, "BW", w.Vid, "we", nil)
	return v.Interface().(string), err
}

func (a *BA) Mctx(ctx context.Context) (*string, error) {
	v, _, err := univ.Method(ctx, probeName, "BA", a.Vid, "mctx", nil)
	return v.Interface().(*string), err
}

func (a *BA) Mctxn(ctx context.Context) (string, error) {
	v, _, err := univ.Method(ctx, probeName, "BA", a.Vid, "mctxn", nil)
	return v.Interface().(string), err
}

func (a *BA) Mlist(ctx context.Context) ([]string, error) {
	v, _, err := univ.Method(ctx, probeName, "BA", a.Vid, "mlist", nil)
	return v.Interface().([]string), err
}

func (a *BA) Mnoerr() int {
	v, _, _ := univ.Method(nil, probeName, "BA", a.Vid, "mnoerr", nil)
	return v.Interface().(int)
}

func (a *BA) Mok() (string, bool) {
	v, ok, _ := univ.Method(nil, probeName, "BA", a.Vid, "mok", nil)
	return v.Interface().(string), ok
}

func (a *BA) Mokn() (int, bool) {
	v, ok, _ := univ.Method(nil, probeName, "BA", a.Vid, "mokn", nil)
	return v.Interface().(int), ok
}

func (a *BA) Marg(ctx context.Context, x *int, s *string) (*string, error) {
	args := map[string]any{"x": univ.Canon(reflect.ValueOf(x)), "s": univ.Canon(reflect.ValueOf(s))}
	v, _, err := univ.Method(ctx, probeName, "BA", a.Vid, "marg", args)
	return v.Interface().(*string), err
}

// Mswap takes its (same-typed) parameters in another order than the schema declares the
// arguments: gqlgen binds them by name.
func (a *BA) Mswap(ctx context.Context, z *int, x *int, y *int) (*string, error) {
	args := map[string]any{"x": univ.Canon(reflect.ValueOf(x)), "y": univ.Canon(reflect.ValueOf(y)), "z": univ.Canon(reflect.ValueOf(z))}
	v, _, err := univ.Method(ctx, probeName, "BA", a.Vid, "mswap", args)
	return v.Interface().(*string), err
}

func (a *BA) Mguard(ctx context.Context) (*string, error) {
	v, _, err := univ.Method(ctx, probeName, "BA", a.Vid, "mguard", nil)
	return v.Interface().(*string), err
}
