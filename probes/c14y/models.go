package PKG

type Shop struct {
	AllItems  []*Item
	ItemCount int
}

type Item struct {
	Name string
}
