package PKG

import (
	"errors"
	"io"
	"strconv"
	"strings"

	"github.com/vektah/gqlparser/v2/gqlerror"
)

// Boom is the harness scalar of the core probe: its (un)marshalers fail on command, so checks
// can inject user-code failures at input-unmarshal time and at serialization time.
type Boom struct{ V string }

func (b *Boom) UnmarshalGQL(v any) error {
	s, ok := v.(string)
	if !ok {
		return errors.New("Boom must be a string")
	}
	switch {
	case strings.HasPrefix(s, "uerr:"):
		return errors.New("BOOM-UNMARSHAL-ERROR " + s)
	case strings.HasPrefix(s, "ugqlerr:"):
		// the documented way to attach extensions to an input error: a *gqlerror.Error without a path
		return &gqlerror.Error{Message: "BOOM-UNMARSHAL-GQLERROR " + s, Extensions: map[string]any{"code": "BOOM"}}
	case strings.HasPrefix(s, "upanic:"):
		panic("BOOM-UNMARSHAL-PANIC " + s)
	}
	b.V = s
	return nil
}

func (b Boom) MarshalGQL(w io.Writer) {
	if strings.HasPrefix(b.V, "mpanic:") {
		panic("BOOM-MARSHAL-PANIC " + b.V)
	}
	if strings.HasPrefix(b.V, "minvalid:") {
		// a marshaler that emits something that is not JSON: the transports find out when they
		// encode the response
		io.WriteString(w, `{"unterminated`)
		return
	}
	io.WriteString(w, strconv.Quote(b.V))
}
