package PKG

import (
	"reflect"

	"verif/internal/univ"
)

// RogueU satisfies the Go interface generated for union U without being one of its members: what
// user code does when it returns an implementation the schema does not know. The generated type
// switch panics on it ("unexpected type"), at the position of the list element when it is one of
// several elements of a list.
type RogueU struct{}

func (RogueU) IsU() {}

func init() { univ.RegisterRogue("core", "U", reflect.TypeOf(RogueU{})) }
