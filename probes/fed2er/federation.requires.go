package PKG

import (
	"context"
	"encoding/json"
	"fmt"
)

// PopulateMReqRequires is user code kept by the generator (explicit_requires): it copies the @requires source fields of the representation it is given into the entity.
func (ec *executionContext) PopulateMReqRequires(ctx context.Context, entity *MReq, reps map[string]any) error {
	ext, ok := reps["ext"].(string)
	if !ok {
		return fmt.Errorf("representation has no string ext")
	}
	n, ok := reps["num"].(json.Number)
	if !ok {
		return fmt.Errorf("representation has no numeric num")
	}
	num, err := n.Int64()
	if err != nil {
		return err
	}
	own, ok := reps["own"].(map[string]any)
	if !ok {
		return fmt.Errorf("representation has no object own")
	}
	entity.Ext, entity.Num, entity.Own = ext, int(num), &Owner{ID: fmt.Sprint(own["id"]), Home: func() *Place {
		if h, ok := own["home"].(map[string]any); ok {
			return &Place{ID: fmt.Sprint(h["id"])}
		}
		return nil
	}(), Tier: func() *string {
		if s, ok := own["tier"].(string); ok {
			return &s
		}
		return nil
	}()}
	return nil
}

// PopulateSReqRequires is user code kept by the generator (explicit_requires): it copies the @requires source fields of the representation it is given into the entity.
func (ec *executionContext) PopulateSReqRequires(ctx context.Context, entity *SReq, reps map[string]any) error {
	ext, ok := reps["ext"].(string)
	if !ok {
		return fmt.Errorf("representation has no string ext")
	}
	n, ok := reps["num"].(json.Number)
	if !ok {
		return fmt.Errorf("representation has no numeric num")
	}
	num, err := n.Int64()
	if err != nil {
		return err
	}
	own, ok := reps["own"].(map[string]any)
	if !ok {
		return fmt.Errorf("representation has no object own")
	}
	entity.Ext, entity.Num, entity.Own = ext, int(num), &Owner{ID: fmt.Sprint(own["id"]), Home: func() *Place {
		if h, ok := own["home"].(map[string]any); ok {
			return &Place{ID: fmt.Sprint(h["id"])}
		}
		return nil
	}(), Tier: func() *string {
		if s, ok := own["tier"].(string); ok {
			return &s
		}
		return nil
	}()}
	return nil
}

