// Package ref is the reference executor: GraphQL execution written directly from the spec
// (October 2021, §6 ExecuteRequest ... CompleteValue, §6.4.1 CollectFields, §6.4.2
// CoerceArgumentValues, §3 input coercion) over gqlparser's AST only. It does not call gqlgen's
// CollectFields, Field.ArgumentMap, validator.VariableValues or any generated code. Resolver and
// directive outcomes come from the same world function the universal resolver uses (univ.Env).
package ref

import (
	"encoding/json"
	"fmt"
	"math"
	"sort"
	"strconv"
	"strings"

	"github.com/vektah/gqlparser/v2/ast"

	"verif/internal/sjson"
	"verif/internal/univ"
)

type Options struct {
	// DirInnerFirst evaluates a field's directive chain in the opposite nesting order. The
	// property does not fix the nesting order of several directives on one field, so callers
	// accept a match under either order.
	DirInnerFirst bool
	// SpecInt32 makes Int coercion reject values outside 32 bits (gqlgen's default binding of Int
	// is Go int, 64-bit: documented, so the default here is false).
	SpecInt32 bool
	// Omittable: nullable input-object fields are wrapped as {"$set":..} (nullable_input_omittable).
	Omittable bool
}

type ErrExp struct {
	Path  string
	Class string
}

func (e ErrExp) String() string { return e.Path + " :: " + e.Class }

type Stats struct {
	Fields        int // fields executed (excluding __typename)
	RootFields    int
	Fragments     int // fragment spreads + inline fragments applied
	TypeCondSkips int // fragments skipped because the type condition did not apply
	SkipInclude   int // selections removed by @skip/@include
	Merged        int // response keys that merged more than one field node
	ListDepthMax  int
	BubbleMax     int // longest null-propagation distance (levels) observed
	Directives    int // directive invocations
	DirBlocked    int
	Typenames     int
}

type Result struct {
	RequestError string // non-empty: request refused before execution (variable coercion)
	Data         *sjson.Value
	Errors       []ErrExp
	Invocations  []string // univ.Key strings of resolver invocations, sorted
	FaultPoints  []string // Invocations plus invocations of fallible bound methods
	DirCalls     []string
	Stats        Stats
	// LateDropped: failures that would happen only while the payload is written, at positions that
	// null propagation removed (never written, so never raised). An execution that does write such a
	// position - @defer stops propagation at the group's object - legitimately reports them.
	LateDropped []ErrExp
	// MutationOrder: root field response keys in required serial order (mutations only)
	MutationOrder []string
}

type exec struct {
	env   *univ.Env
	plan  univ.Plan
	doc   *ast.QueryDocument
	vars  map[string]any // coerced variable values; absent key = not provided
	opts  Options
	res   *Result
	sch   *ast.Schema
	depth int
	// late: positions whose value fails only when the payload is written (non-finite Float)
	late []pathT
}

// Execute runs operation opName of doc against the world of env under plan.
func Execute(env *univ.Env, plan univ.Plan, doc *ast.QueryDocument, opName string, rawVars map[string]any, opts Options) *Result {
	x := &exec{env: env, plan: plan, doc: doc, opts: opts, res: &Result{}, sch: env.Schema}
	var op *ast.OperationDefinition
	for _, o := range doc.Operations {
		if opName == "" || o.Name == opName {
			op = o
			break
		}
	}
	if op == nil {
		x.res.RequestError = "operation not found"
		return x.res
	}
	vars, err := x.coerceVariables(op, rawVars)
	if err != nil {
		x.res.RequestError = err.Error()
		return x.res
	}
	x.vars = vars
	var rootName string
	switch op.Operation {
	case ast.Query:
		rootName = x.sch.Query.Name
	case ast.Mutation:
		rootName = x.sch.Mutation.Name
	default:
		x.res.RequestError = "subscriptions are executed per event; use ExecuteSubscription"
		return x.res
	}
	// operation-level directives (outermost = last applied, as for fields)
	blocked := false
	for i := len(op.Directives) - 1; i >= 0; i-- {
		d := op.Directives[i]
		def := x.sch.Directives[d.Name]
		if def == nil || isBuiltinDirective(d.Name) {
			continue
		}
		name := x.dirName(def, d)
		x.res.DirCalls = append(x.res.DirCalls, "|"+name)
		x.res.Stats.Directives++
		out := plan.Directive("", name)
		if out == 1 {
			x.res.Errors = append(x.res.Errors, ErrExp{"", "directive:" + univ.DirErrText("", name)})
			blocked = true
			x.res.Stats.DirBlocked++
			break
		}
		if out == 2 {
			// an operation directive that answers (nil, nil) without calling next: gqlgen cannot use
			// that as the operation's result and says so ("unexpected type <nil> from directive")
			x.res.Errors = append(x.res.Errors, ErrExp{"", "directive-nil"})
			blocked = true
			x.res.Stats.DirBlocked++
			break
		}
		if out == 3 {
			// a panic of an operation directive is not recovered per field: it ends the whole
			// response (the transport's recover answers with that one error and no data)
			x.res.Errors = append(x.res.Errors, ErrExp{"", "panic:P!dir!" + name})
			blocked = true
			x.res.Stats.DirBlocked++
			break
		}
	}
	if blocked {
		x.res.Data = sjson.N()
		x.finish()
		return x.res
	}
	root := &univ.Val{Kind: univ.KObject, Type: rootName, Vid: "root:" + rootName}
	data, ok := x.selectionSet(x.sch.Types[rootName], root, op.SelectionSet, nil, true, op.Operation == ast.Mutation)
	if !ok {
		data = sjson.N()
	}
	x.res.Data = data
	x.finish()
	return x.res
}

func (x *exec) finish() {
	// a failure that happens while the payload is written exists only for positions that are
	// written: one inside a subtree that null propagation discarded never happens
	for _, p := range x.late {
		if reaches(x.res.Data, p) {
			x.addErr(p, "nonfinite")
		} else {
			x.res.LateDropped = append(x.res.LateDropped, ErrExp{p.String(), "nonfinite"})
		}
	}
	x.late = nil
	sort.Strings(x.res.Invocations)
	sort.Strings(x.res.DirCalls)
	sort.Slice(x.res.Errors, func(i, j int) bool { return x.res.Errors[i].String() < x.res.Errors[j].String() })
}

// reaches reports whether path p leads to a position present in data.
func reaches(data *sjson.Value, p pathT) bool {
	cur := data
	for _, e := range p {
		if cur == nil {
			return false
		}
		switch k := e.(type) {
		case string:
			if cur.Kind != sjson.Object {
				return false
			}
			cur = cur.Get(k)
		case int:
			if cur.Kind != sjson.Array || k >= len(cur.Arr) {
				return false
			}
			cur = cur.Arr[k]
		}
	}
	return cur != nil
}

func isBuiltinDirective(n string) bool {
	switch n {
	case "skip", "include", "deprecated", "specifiedBy", "defer", "goField", "goModel", "goTag", "goEnum", "oneOf":
		return true
	}
	return false
}

// dirName mirrors the identity the universal directive computes from its Go arguments:
// name + "," + canonical JSON of each argument in definition order.
func (x *exec) dirName(def *ast.DirectiveDefinition, d *ast.Directive) string {
	name := def.Name
	for _, a := range def.Arguments {
		var v any
		if arg := d.Arguments.ForName(a.Name); arg != nil {
			v, _, _ = x.literal(arg.Value, a.Type, "")
		} else if a.DefaultValue != nil {
			v, _, _ = x.literal(a.DefaultValue, a.Type, "")
		}
		name += "," + univ.CanonJSON(v)
	}
	return name
}

type pathT []any

func (p pathT) String() string {
	// same rendering as ast.Path.String(): a.b[0].c
	var sb strings.Builder
	for i, e := range p {
		switch v := e.(type) {
		case string:
			if i > 0 {
				sb.WriteByte('.')
			}
			sb.WriteString(v)
		case int:
			fmt.Fprintf(&sb, "[%d]", v)
		}
	}
	return sb.String()
}

func (p pathT) with(e any) pathT {
	n := make(pathT, len(p)+1)
	copy(n, p)
	n[len(p)] = e
	return n
}

type fieldGroup struct {
	key   string
	nodes []*ast.Field
}

// collect implements CollectFields (§6.3.2).
func (x *exec) collect(objType *ast.Definition, set ast.SelectionSet, visited map[string]bool, groups *[]*fieldGroup) {
	for _, sel := range set {
		switch s := sel.(type) {
		case *ast.Field:
			if !x.included(s.Directives) {
				x.res.Stats.SkipInclude++
				continue
			}
			key := s.Alias
			if key == "" {
				key = s.Name
			}
			found := false
			for _, g := range *groups {
				if g.key == key {
					g.nodes = append(g.nodes, s)
					found = true
					break
				}
			}
			if !found {
				*groups = append(*groups, &fieldGroup{key: key, nodes: []*ast.Field{s}})
			}
		case *ast.FragmentSpread:
			if !x.included(s.Directives) {
				x.res.Stats.SkipInclude++
				continue
			}
			if visited[s.Name] {
				continue
			}
			visited[s.Name] = true
			frag := x.doc.Fragments.ForName(s.Name)
			if frag == nil {
				continue
			}
			if !x.typeApplies(objType, frag.TypeCondition) {
				x.res.Stats.TypeCondSkips++
				continue
			}
			x.res.Stats.Fragments++
			x.collect(objType, frag.SelectionSet, visited, groups)
		case *ast.InlineFragment:
			if !x.included(s.Directives) {
				x.res.Stats.SkipInclude++
				continue
			}
			if s.TypeCondition != "" && !x.typeApplies(objType, s.TypeCondition) {
				x.res.Stats.TypeCondSkips++
				continue
			}
			x.res.Stats.Fragments++
			x.collect(objType, s.SelectionSet, visited, groups)
		}
	}
}

func (x *exec) included(ds ast.DirectiveList) bool {
	if d := ds.ForName("skip"); d != nil {
		if x.boolArg(d) {
			return false
		}
	}
	if d := ds.ForName("include"); d != nil {
		if !x.boolArg(d) {
			return false
		}
	}
	return true
}

func (x *exec) boolArg(d *ast.Directive) bool {
	a := d.Arguments.ForName("if")
	if a == nil {
		return false
	}
	v, _, _ := x.literal(a.Value, ast.NonNullNamedType("Boolean", nil), "")
	b, _ := v.(bool)
	return b
}

func (x *exec) typeApplies(objType *ast.Definition, cond string) bool {
	if cond == objType.Name {
		return true
	}
	def := x.sch.Types[cond]
	if def == nil {
		return false
	}
	switch def.Kind {
	case ast.Interface:
		// object implements the interface (directly or via interface inheritance: the SDL must
		// list transitive interfaces, so the direct list is complete)
		for _, i := range objType.Interfaces {
			if i == cond {
				return true
			}
		}
	case ast.Union:
		for _, t := range def.Types {
			if t == objType.Name {
				return true
			}
		}
	}
	return false
}

// selectionSet implements ExecuteSelectionSet. ok=false: a non-null field is null and the object
// must itself become null.
func (x *exec) selectionSet(objType *ast.Definition, obj *univ.Val, set ast.SelectionSet, path pathT, root, serial bool) (*sjson.Value, bool) {
	var groups []*fieldGroup
	x.collect(objType, set, map[string]bool{}, &groups)
	out := sjson.O()
	ok := true
	for _, g := range groups {
		if len(g.nodes) > 1 {
			x.res.Stats.Merged++
		}
		name := g.nodes[0].Name
		if root && serial {
			x.res.MutationOrder = append(x.res.MutationOrder, g.key)
		}
		if name == "__typename" {
			x.res.Stats.Typenames++
			out.Set(g.key, sjson.S(objType.Name))
			continue
		}
		fdef := objType.Fields.ForName(name)
		if fdef == nil {
			continue // validated documents never get here
		}
		x.res.Stats.Fields++
		if root {
			x.res.Stats.RootFields++
		}
		v, fok := x.field(objType, obj, fdef, g.nodes, path.with(g.key))
		if !fok {
			ok = false
		}
		out.Set(g.key, v)
	}
	if !ok {
		return sjson.N(), false
	}
	return out, true
}

func (x *exec) addErr(path pathT, class string) {
	x.res.Errors = append(x.res.Errors, ErrExp{path.String(), class})
}

// directiveChain lists the schema directives wrapping a field, innermost first, mirroring what a
// schema author writes: directives on the field's result type definition, then on the field.
func (x *exec) directiveChain(fdef *ast.FieldDefinition) []string {
	var names []string
	add := func(ds ast.DirectiveList) {
		for _, d := range ds {
			def := x.sch.Directives[d.Name]
			if def == nil || isBuiltinDirective(d.Name) {
				continue
			}
			okLoc := false
			for _, l := range def.Locations {
				if l == ast.LocationFieldDefinition || l == ast.LocationObject {
					okLoc = true
				}
			}
			if !okLoc {
				continue
			}
			names = append(names, x.dirName(def, d))
		}
	}
	if td := x.sch.Types[fdef.Type.Name()]; td != nil {
		add(td.Directives)
	}
	add(fdef.Directives)
	return names
}

// field implements ExecuteField + CompleteValue for one response key.
func (x *exec) field(objType *ast.Definition, obj *univ.Val, fdef *ast.FieldDefinition, nodes []*ast.Field, path pathT) (*sjson.Value, bool) {
	nonNull := fdef.Type.NonNull
	fail := func() (*sjson.Value, bool) { return sjson.N(), !nonNull }

	// CoerceArgumentValues
	args, aerr := x.arguments(fdef, nodes[0], path)
	if aerr != nil {
		x.res.Errors = append(x.res.Errors, *aerr)
		return fail()
	}
	argsJSON := univ.CanonJSON(args)

	// schema directives, outermost first
	chain := x.directiveChain(fdef)
	// executable (FIELD) directives written on the first field node wrap the schema directives
	for _, d := range nodes[0].Directives {
		def := x.sch.Directives[d.Name]
		if def == nil || isBuiltinDirective(d.Name) {
			continue
		}
		for _, l := range def.Locations {
			if l == ast.LocationField {
				chain = append(chain, x.dirName(def, d))
				break
			}
		}
	}
	order := make([]string, len(chain))
	for i := range chain {
		if x.opts.DirInnerFirst {
			order[i] = chain[i]
		} else {
			order[i] = chain[len(chain)-1-i]
		}
	}
	for _, dn := range order {
		x.res.Stats.Directives++
		x.res.DirCalls = append(x.res.DirCalls, path.String()+"|"+dn)
		switch x.plan.Directive(path.String(), dn) {
		case 1:
			x.res.Stats.DirBlocked++
			x.addErr(path, "directive:"+univ.DirErrText(path.String(), dn))
			return fail()
		case 2:
			x.res.Stats.DirBlocked++
			if nonNull {
				x.addErr(path, "nonnull")
			}
			return fail()
		case 3:
			x.res.Stats.DirBlocked++
			x.addErr(path, "panic:P!dir!"+dn)
			return fail()
		}
	}

	fault, val, isResolver := x.env.Eval(x.plan, objType.Name, obj.Vid, fdef.Name, argsJSON)
	k := univ.Key{Object: objType.Name, Vid: obj.Vid, Field: fdef.Name, Args: argsJSON}
	if isResolver {
		x.res.Invocations = append(x.res.Invocations, k.String())
		x.res.FaultPoints = append(x.res.FaultPoints, k.String())
	} else if x.env.CanFail(objType.Name, fdef.Name) {
		x.res.FaultPoints = append(x.res.FaultPoints, k.String())
	}
	// resolvers and context methods of bound models can fail
	switch fault {
	case univ.FaultError:
		x.addErr(path, "resolver:"+univ.ErrText(k))
		return fail()
	case univ.FaultPanic:
		x.addErr(path, "panic:"+univ.PanicText(k))
		return fail()
	case univ.FaultErrList:
		for i := 0; i < univ.ErrListN; i++ {
			x.addErr(path, fmt.Sprintf("resolver:%s#%d", univ.ErrText(k), i))
		}
		return fail()
	}
	var sel ast.SelectionSet
	for _, n := range nodes {
		sel = append(sel, n.SelectionSet...)
	}
	return x.complete(fdef.Type, val, sel, path, 0)
}

func (x *exec) complete(t *ast.Type, val *univ.Val, sel ast.SelectionSet, path pathT, listDepth int) (*sjson.Value, bool) {
	v, originated := x.completeNullable(t, val, sel, path, listDepth)
	if v.Kind == sjson.Null {
		if t.NonNull {
			if originated {
				x.addErr(path, "nonnull")
			}
			return v, false
		}
	}
	return v, true
}

// completeNullable returns the completed value ignoring t's own NonNull marker, and whether a null
// result originated here (a null value) rather than from a propagated child failure.
func (x *exec) completeNullable(t *ast.Type, val *univ.Val, sel ast.SelectionSet, path pathT, listDepth int) (*sjson.Value, bool) {
	if val == nil || val.Kind == univ.KNull {
		return sjson.N(), true
	}
	if t.Elem != nil {
		if listDepth+1 > x.res.Stats.ListDepthMax {
			x.res.Stats.ListDepthMax = listDepth + 1
		}
		arr := sjson.A()
		bad := false
		for i, e := range val.List {
			ev, ok := x.complete(t.Elem, e, sel, path.with(i), listDepth+1)
			if !ok {
				bad = true
			}
			arr.Arr = append(arr.Arr, ev)
		}
		if bad {
			return sjson.N(), false
		}
		return arr, false
	}
	def := x.sch.Types[t.NamedType]
	switch def.Kind {
	case ast.Object, ast.Interface, ast.Union:
		concrete := x.sch.Types[val.Type]
		x.depth++
		out, ok := x.selectionSet(concrete, val, sel, path, false, false)
		x.depth--
		if !ok {
			return sjson.N(), false
		}
		return out, false
	default:
		if f, ok := val.Scalar.(float64); ok && (math.IsNaN(f) || math.IsInf(f, 0)) {
			// no JSON form: the position is answered null with one error at its path
			x.late = append(x.late, path)
			return sjson.N(), false
		}
		return scalarJSON(val.Scalar), false
	}
}

func scalarJSON(s any) *sjson.Value {
	switch v := s.(type) {
	case string:
		return sjson.S(v)
	case int64:
		return sjson.I(v)
	case float64:
		return sjson.F(v)
	case bool:
		return sjson.Bo(v)
	case nil:
		return sjson.N()
	}
	return sjson.S(fmt.Sprint(s))
}

// ---------------------------------------------------------------------------------------------
// Input coercion

type coerceErr struct {
	path []any
	msg  string
}

func (c *coerceErr) Error() string { return fmt.Sprintf("%v: %s", c.path, c.msg) }

func cerr(path []any, f string, a ...any) *coerceErr {
	return &coerceErr{path: path, msg: fmt.Sprintf(f, a...)}
}

// Omitted marks an input-object field / argument that was not provided and has no default.
type omitted struct{}

// arguments implements CoerceArgumentValues; the result has an entry for every defined argument
// (nil when omitted: a Go resolver receives a nil pointer / zero value then).
func (x *exec) arguments(fdef *ast.FieldDefinition, node *ast.Field, path pathT) (map[string]any, *ErrExp) {
	out := map[string]any{}
	for _, ad := range fdef.Arguments {
		arg := node.Arguments.ForName(ad.Name)
		var v any
		var present bool
		var err *coerceErr
		if arg != nil {
			v, present, err = x.literal(arg.Value, ad.Type, ad.Name)
		}
		if err != nil {
			p := path
			for _, e := range err.path {
				p = p.with(e)
			}
			return nil, &ErrExp{p.String(), "coercion"}
		}
		if !present {
			if ad.DefaultValue != nil {
				v, _, err = x.literal(ad.DefaultValue, ad.Type, ad.Name)
				if err != nil {
					return nil, &ErrExp{path.with(ad.Name).String(), "coercion"}
				}
			} else if ad.Type.NonNull {
				return nil, &ErrExp{path.with(ad.Name).String(), "coercion"}
			} else {
				v = nil
			}
		}
		out[ad.Name] = v
	}
	return out, nil
}

// literal coerces an AST value (which may contain variables) to type t. present=false means "a
// variable without a runtime value": the caller applies its default.
func (x *exec) literal(v *ast.Value, t *ast.Type, at any) (any, bool, *coerceErr) {
	p := []any{}
	if at != nil && at != "" {
		p = append(p, at)
	}
	return x.lit(v, t, p)
}

func (x *exec) lit(v *ast.Value, t *ast.Type, path []any) (any, bool, *coerceErr) {
	if v == nil {
		return nil, false, nil
	}
	if v.Kind == ast.Variable {
		val, ok := x.vars[v.Raw]
		if !ok {
			return nil, false, nil
		}
		if val == nil && t.NonNull {
			return nil, true, cerr(path, "null for non-null")
		}
		return val, true, nil
	}
	if v.Kind == ast.NullValue {
		if t.NonNull {
			return nil, true, cerr(path, "null for non-null")
		}
		return nil, true, nil
	}
	if t.Elem != nil {
		if v.Kind == ast.ListValue {
			out := make([]any, 0, len(v.Children))
			for i, c := range v.Children {
				ev, present, err := x.lit(c.Value, t.Elem, append(append([]any{}, path...), i))
				if err != nil {
					return nil, true, err
				}
				if !present {
					if t.Elem.NonNull {
						return nil, true, cerr(append(path, i), "missing variable in non-null list position")
					}
					ev = nil
				}
				out = append(out, ev)
			}
			return out, true, nil
		}
		ev, present, err := x.lit(v, t.Elem, path)
		if err != nil || !present {
			return nil, present, err
		}
		return []any{ev}, true, nil
	}
	def := x.sch.Types[t.NamedType]
	if def == nil {
		return nil, true, cerr(path, "unknown type %s", t.NamedType)
	}
	switch def.Kind {
	case ast.Enum:
		if v.Kind != ast.EnumValue {
			return nil, true, cerr(path, "enum expects a name")
		}
		if def.EnumValues.ForName(v.Raw) == nil {
			return nil, true, cerr(path, "unknown enum value %s", v.Raw)
		}
		return v.Raw, true, nil
	case ast.InputObject:
		if v.Kind != ast.ObjectValue {
			return nil, true, cerr(path, "input object expects an object")
		}
		for _, c := range v.Children {
			if def.Fields.ForName(c.Name) == nil {
				return nil, true, cerr(append(path, c.Name), "unknown field")
			}
		}
		out := map[string]any{}
		for _, fd := range def.Fields {
			fp := append(append([]any{}, path...), fd.Name)
			var fv any
			present := false
			var err *coerceErr
			if c := v.Children.ForName(fd.Name); c != nil {
				fv, present, err = x.lit(c, fd.Type, fp)
				if err != nil {
					return nil, true, err
				}
			}
			if !present && fd.DefaultValue != nil {
				fv, present, err = x.lit(fd.DefaultValue, fd.Type, fp)
				if err != nil {
					return nil, true, err
				}
			}
			if !present && fd.Type.NonNull {
				return nil, true, cerr(fp, "required field missing")
			}
			out[fd.Name] = x.wrapField(fd, fv, present)
		}
		return out, true, nil
	default:
		return x.scalarLiteral(def.Name, v, path)
	}
}

func (x *exec) wrapField(fd *ast.FieldDefinition, v any, present bool) any {
	if x.opts.Omittable && !fd.Type.NonNull {
		if !present {
			return map[string]any{"$set": false}
		}
		return map[string]any{"$set": true, "value": v}
	}
	if !present {
		return nil
	}
	return v
}

func (x *exec) scalarLiteral(name string, v *ast.Value, path []any) (any, bool, *coerceErr) {
	switch name {
	case "Int":
		if v.Kind != ast.IntValue {
			return nil, true, cerr(path, "Int expects an integer literal")
		}
		n, err := strconv.ParseInt(v.Raw, 10, 64)
		if err != nil {
			return nil, true, cerr(path, "Int out of range")
		}
		if x.opts.SpecInt32 && (n > 2147483647 || n < -2147483648) {
			return nil, true, cerr(path, "Int out of 32-bit range")
		}
		return n, true, nil
	case "Float":
		if v.Kind != ast.IntValue && v.Kind != ast.FloatValue {
			return nil, true, cerr(path, "Float expects a number literal")
		}
		f, err := strconv.ParseFloat(v.Raw, 64)
		if err != nil {
			return nil, true, cerr(path, "bad float")
		}
		return f, true, nil
	case "String":
		if v.Kind != ast.StringValue && v.Kind != ast.BlockValue {
			return nil, true, cerr(path, "String expects a string literal")
		}
		return v.Raw, true, nil
	case "Boolean":
		if v.Kind != ast.BooleanValue {
			return nil, true, cerr(path, "Boolean expects true/false")
		}
		return v.Raw == "true", true, nil
	case "ID":
		if v.Kind == ast.StringValue || v.Kind == ast.BlockValue || v.Kind == ast.IntValue {
			return v.Raw, true, nil
		}
		return nil, true, cerr(path, "ID expects a string or integer literal")
	}
	// custom scalar: pass the literal through as its natural JSON value
	switch v.Kind {
	case ast.IntValue:
		n, _ := strconv.ParseInt(v.Raw, 10, 64)
		return n, true, nil
	case ast.FloatValue:
		f, _ := strconv.ParseFloat(v.Raw, 64)
		return f, true, nil
	case ast.BooleanValue:
		return v.Raw == "true", true, nil
	}
	return v.Raw, true, nil
}

// coerceVariables implements CoerceVariableValues (§6.1.2).
func (x *exec) coerceVariables(op *ast.OperationDefinition, raw map[string]any) (map[string]any, error) {
	out := map[string]any{}
	for _, vd := range op.VariableDefinitions {
		rv, has := raw[vd.Variable]
		if !has {
			if vd.DefaultValue != nil {
				v, _, err := x.lit(vd.DefaultValue, vd.Type, []any{"variable", vd.Variable})
				if err != nil {
					return nil, err
				}
				out[vd.Variable] = v
				continue
			}
			if vd.Type.NonNull {
				return nil, fmt.Errorf("variable $%s: required", vd.Variable)
			}
			continue
		}
		v, err := x.jsonValue(rv, vd.Type, []any{"variable", vd.Variable})
		if err != nil {
			return nil, err
		}
		out[vd.Variable] = v
	}
	return out, nil
}

// jsonValue coerces a decoded JSON value (json.Number for numbers) to type t.
func (x *exec) jsonValue(v any, t *ast.Type, path []any) (any, *coerceErr) {
	if v == nil {
		if t.NonNull {
			return nil, cerr(path, "null for non-null")
		}
		return nil, nil
	}
	if t.Elem != nil {
		if l, ok := v.([]any); ok {
			out := make([]any, len(l))
			for i, e := range l {
				ev, err := x.jsonValue(e, t.Elem, append(append([]any{}, path...), i))
				if err != nil {
					return nil, err
				}
				out[i] = ev
			}
			return out, nil
		}
		ev, err := x.jsonValue(v, t.Elem, path)
		if err != nil {
			return nil, err
		}
		return []any{ev}, nil
	}
	def := x.sch.Types[t.NamedType]
	switch def.Kind {
	case ast.Enum:
		s, ok := v.(string)
		if !ok || def.EnumValues.ForName(s) == nil {
			return nil, cerr(path, "bad enum value")
		}
		return s, nil
	case ast.InputObject:
		m, ok := v.(map[string]any)
		if !ok {
			return nil, cerr(path, "input object expects an object")
		}
		for k := range m {
			if def.Fields.ForName(k) == nil {
				return nil, cerr(append(path, k), "unknown field")
			}
		}
		out := map[string]any{}
		for _, fd := range def.Fields {
			fp := append(append([]any{}, path...), fd.Name)
			fv, present := m[fd.Name]
			var cv any
			if present {
				var err *coerceErr
				cv, err = x.jsonValue(fv, fd.Type, fp)
				if err != nil {
					return nil, err
				}
			} else if fd.DefaultValue != nil {
				var err *coerceErr
				cv, _, err = x.lit(fd.DefaultValue, fd.Type, fp)
				if err != nil {
					return nil, err
				}
				present = true
			} else if fd.Type.NonNull {
				return nil, cerr(fp, "required field missing")
			}
			out[fd.Name] = x.wrapField(fd, cv, present)
		}
		return out, nil
	}
	switch def.Name {
	case "Int":
		n, ok := v.(json.Number)
		if !ok {
			return nil, cerr(path, "Int expects a number")
		}
		i, err := strconv.ParseInt(string(n), 10, 64)
		if err != nil {
			return nil, cerr(path, "Int expects an integer")
		}
		if x.opts.SpecInt32 && (i > 2147483647 || i < -2147483648) {
			return nil, cerr(path, "Int out of 32-bit range")
		}
		return i, nil
	case "Float":
		n, ok := v.(json.Number)
		if !ok {
			return nil, cerr(path, "Float expects a number")
		}
		f, err := n.Float64()
		if err != nil {
			return nil, cerr(path, "bad float")
		}
		return f, nil
	case "String":
		s, ok := v.(string)
		if !ok {
			return nil, cerr(path, "String expects a string")
		}
		return s, nil
	case "Boolean":
		b, ok := v.(bool)
		if !ok {
			return nil, cerr(path, "Boolean expects a boolean")
		}
		return b, nil
	case "ID":
		switch s := v.(type) {
		case string:
			return s, nil
		case json.Number:
			if _, err := strconv.ParseInt(string(s), 10, 64); err == nil {
				return string(s), nil
			}
		}
		return nil, cerr(path, "ID expects a string or integer")
	}
	if n, ok := v.(json.Number); ok {
		if i, err := strconv.ParseInt(string(n), 10, 64); err == nil {
			return i, nil
		}
		f, _ := n.Float64()
		return f, nil
	}
	return v, nil
}

// ExecuteSubscription models a subscription operation: the single root field's resolver yields a
// stream of n events (the universal resolver's StreamCount, default 3); each event is completed
// like a query result for that field. It returns one Result per expected payload. When the
// subscribe-time resolver fails there is exactly one payload carrying only that error.
func ExecuteSubscription(env *univ.Env, plan univ.Plan, doc *ast.QueryDocument, opName string, rawVars map[string]any, opts Options, events int) []*Result {
	x := &exec{env: env, plan: plan, doc: doc, opts: opts, res: &Result{}, sch: env.Schema}
	var op *ast.OperationDefinition
	for _, o := range doc.Operations {
		if opName == "" || o.Name == opName {
			op = o
			break
		}
	}
	if op == nil || op.Operation != ast.Subscription || x.sch.Subscription == nil {
		x.res.RequestError = "not a subscription"
		return []*Result{x.res}
	}
	vars, err := x.coerceVariables(op, rawVars)
	if err != nil {
		x.res.RequestError = err.Error()
		return []*Result{x.res}
	}
	x.vars = vars
	root := x.sch.Subscription
	var groups []*fieldGroup
	x.collect(root, op.SelectionSet, map[string]bool{}, &groups)
	if len(groups) != 1 {
		x.res.RequestError = "must subscribe to exactly one stream"
		return []*Result{x.res}
	}
	g := groups[0]
	fdef := root.Fields.ForName(g.nodes[0].Name)
	path := pathT{g.key}
	args, aerr := x.arguments(fdef, g.nodes[0], path)
	if aerr != nil {
		x.res.Errors = append(x.res.Errors, *aerr)
		x.finish()
		return []*Result{x.res}
	}
	argsJSON := univ.CanonJSON(args)
	k := univ.Key{Object: root.Name, Vid: "root:" + root.Name, Field: fdef.Name, Args: argsJSON}
	x.res.Invocations = append(x.res.Invocations, k.String())
	switch plan.Fault(k) {
	case univ.FaultError:
		x.addErr(path, "resolver:"+univ.ErrText(k))
		x.finish()
		return []*Result{x.res}
	case univ.FaultPanic:
		x.addErr(path, "panic:"+univ.PanicText(k))
		x.finish()
		return []*Result{x.res}
	case univ.FaultErrList:
		for i := 0; i < univ.ErrListN; i++ {
			x.addErr(path, fmt.Sprintf("resolver:%s#%d", univ.ErrText(k), i))
		}
		x.finish()
		return []*Result{x.res}
	}
	var sel ast.SelectionSet
	for _, n := range g.nodes {
		sel = append(sel, n.SelectionSet...)
	}
	rt := env.ResultTypes[root.Name+"."+fdef.Name]
	var out []*Result
	for i := 0; i < events; i++ {
		ex := &exec{env: env, plan: plan, doc: doc, opts: opts, res: &Result{}, sch: env.Schema, vars: vars}
		val := env.Value(plan, k, "#"+strconv.Itoa(i), fdef.Type, rt)
		v, ok := ex.complete(fdef.Type, val, sel, path, 0)
		data := sjson.O().Set(g.key, v)
		_ = ok // the event payload always carries the field, null when it failed
		ex.res.Data = data
		ex.finish()
		out = append(out, ex.res)
	}
	return out
}
