// Package opgen is a seeded, type-directed random GraphQL operation generator.
// Every operation is identified by (seed, index) and is reproducible.
package opgen

import (
	"fmt"
	"math/rand"
	"sort"
	"strconv"
	"strings"

	"github.com/vektah/gqlparser/v2/ast"
)

type Config struct {
	MaxDepth    int
	MaxSel      int     // max selections per set
	Defer       bool    // add @defer marks on fragments
	DeferProb   float64 // probability a fragment gets @defer when Defer is set
	NoVariables bool
	// FieldFilter, if set, restricts which fields may be selected.
	FieldFilter func(typeName, fieldName string) bool
	// ArgValue, if set, may override the literal generated for an argument (return "" to skip).
	ArgValue func(typeName, fieldName, argName string) string
}

type Op struct {
	Query    string         `json:"query"`
	Vars     map[string]any `json:"variables,omitempty"`
	OpName   string         `json:"operationName,omitempty"`
	Kind     string         `json:"kind"`
	Features map[string]int `json:"features,omitempty"`
}

type gen struct {
	s      *ast.Schema
	r      *rand.Rand
	cfg    Config
	frags  []*fragDef
	fragN  int
	vars   map[string]*varDef
	feat   map[string]int
	labelN int
}

type fragDef struct {
	name string
	on   string
	body string
	done bool
}

type varDef struct {
	name, typ, def string
	val            any
	provide        bool
}

// Generate returns one operation of the given kind (query|mutation).
func Generate(s *ast.Schema, seed int64, kind ast.Operation, cfg Config) *Op {
	if cfg.MaxDepth == 0 {
		cfg.MaxDepth = 4
	}
	if cfg.MaxSel == 0 {
		cfg.MaxSel = 4
	}
	g := &gen{s: s, r: rand.New(rand.NewSource(seed)), cfg: cfg, vars: map[string]*varDef{}, feat: map[string]int{}}
	var root *ast.Definition
	if kind == ast.Mutation && s.Mutation == nil {
		kind = ast.Query // the schema has no mutation root
	}
	switch kind {
	case ast.Mutation:
		root = s.Mutation
	default:
		root = s.Query
		kind = ast.Query
	}
	body := g.selectionSet(root, 0)
	var sb strings.Builder
	name := "Op" + strconv.Itoa(g.r.Intn(1000))
	sb.WriteString(string(kind) + " " + name)
	if len(g.vars) > 0 {
		names := make([]string, 0, len(g.vars))
		for n := range g.vars {
			names = append(names, n)
		}
		sort.Strings(names)
		sb.WriteString("(")
		for i, n := range names {
			v := g.vars[n]
			if i > 0 {
				sb.WriteString(", ")
			}
			sb.WriteString("$" + v.name + ": " + v.typ)
			if v.def != "" {
				sb.WriteString(" = " + v.def)
			}
		}
		sb.WriteString(")")
	}
	sb.WriteString(g.opDirectives(kind))
	sb.WriteString(" " + body)
	for _, f := range g.frags {
		sb.WriteString("\nfragment " + f.name + " on " + f.on + " " + f.body)
	}
	op := &Op{Query: sb.String(), OpName: name, Kind: string(kind), Features: g.feat}
	if len(g.vars) > 0 {
		op.Vars = map[string]any{}
		for _, v := range g.vars {
			if v.provide {
				op.Vars[v.name] = v.val
			}
		}
	}
	return op
}

func (g *gen) chance(p float64) bool { return g.r.Float64() < p }

func (g *gen) possible(def *ast.Definition) []*ast.Definition {
	ts := g.s.GetPossibleTypes(def)
	out := make([]*ast.Definition, 0, len(ts))
	for _, t := range ts {
		if !strings.HasPrefix(t.Name, "__") {
			out = append(out, t)
		}
	}
	sort.Slice(out, func(i, j int) bool { return out[i].Name < out[j].Name })
	return out
}

// conditionsFor lists type conditions that are valid on a selection over def.
func (g *gen) conditionsFor(def *ast.Definition) []string {
	set := map[string]bool{def.Name: true}
	switch def.Kind {
	case ast.Object:
		for _, i := range def.Interfaces {
			set[i] = true
		}
		for _, t := range g.s.Types {
			if t.Kind == ast.Union {
				for _, m := range t.Types {
					if m == def.Name {
						set[t.Name] = true
					}
				}
			}
		}
	case ast.Interface, ast.Union:
		for _, p := range g.possible(def) {
			set[p.Name] = true
			for _, i := range p.Interfaces {
				set[i] = true
			}
		}
	}
	out := make([]string, 0, len(set))
	for n := range set {
		out = append(out, n)
	}
	sort.Strings(out)
	return out
}

func (g *gen) boolDirective() string {
	if !g.chance(0.25) {
		return ""
	}
	if g.chance(0.3) {
		// both directives on one node, in either order (the node is included only if @skip is
		// false AND @include is true)
		g.feat["skip_and_include_together"]++
		a, b := g.oneBoolDirective("@skip"), g.oneBoolDirective("@include")
		if g.chance(0.5) {
			a, b = b, a
		}
		return a + b
	}
	d := "@skip"
	if g.chance(0.5) {
		d = "@include"
	}
	return g.oneBoolDirective(d)
}

func (g *gen) oneBoolDirective(d string) string {
	g.feat["skipinclude"]++
	if !g.cfg.NoVariables && g.chance(0.5) {
		g.feat["skipinclude_var"]++
		return " " + d + "(if: $" + g.boolVar() + ")"
	}
	return " " + d + "(if: " + strconv.FormatBool(g.chance(0.5)) + ")"
}

func (g *gen) boolDirectiveOld() string {
	d := "@skip"
	if g.chance(0.5) {
		d = "@include"
	}
	g.feat["skipinclude"]++
	if !g.cfg.NoVariables && g.chance(0.5) {
		g.feat["skipinclude_var"]++
		return " " + d + "(if: $" + g.boolVar() + ")"
	}
	return " " + d + "(if: " + strconv.FormatBool(g.chance(0.5)) + ")"
}

func (g *gen) boolVar() string {
	n := "b" + strconv.Itoa(g.r.Intn(3))
	if _, ok := g.vars[n]; !ok {
		v := &varDef{name: n}
		switch g.r.Intn(3) {
		case 0:
			v.typ, v.val, v.provide = "Boolean!", g.chance(0.5), true
		case 1:
			v.typ, v.def = "Boolean", strconv.FormatBool(g.chance(0.5))
			if g.chance(0.5) {
				v.val, v.provide = g.chance(0.5), true
			}
		default:
			v.typ, v.def = "Boolean!", strconv.FormatBool(g.chance(0.5))
		}
		g.vars[n] = v
	}
	return n
}

func (g *gen) deferDirective() string {
	if !g.cfg.Defer || !g.chance(g.cfg.DeferProb) {
		return ""
	}
	g.feat["defer"]++
	var args []string
	switch g.r.Intn(4) {
	case 0:
		args = append(args, "if: true")
	case 1:
		args = append(args, "if: false")
		g.feat["defer_if_false"]++
	case 2:
		if !g.cfg.NoVariables {
			args = append(args, "if: $"+g.boolVar())
			g.feat["defer_if_var"]++
		}
	}
	switch g.r.Intn(3) {
	case 0:
		g.labelN++
		args = append(args, fmt.Sprintf("label: \"L%d\"", g.labelN))
	case 1:
		args = append(args, "label: \"shared\"")
		g.feat["defer_shared_label"]++
	}
	if len(args) == 0 {
		return " @defer"
	}
	return " @defer(" + strings.Join(args, ", ") + ")"
}

func (g *gen) selectionSet(def *ast.Definition, depth int) string {
	n := 1 + g.r.Intn(g.cfg.MaxSel)
	var parts []string
	for i := 0; i < n; i++ {
		x := g.r.Float64()
		switch {
		case x < 0.08:
			alias := ""
			if g.chance(0.2) {
				alias = "tn" + strconv.Itoa(g.r.Intn(2)) + ": "
			}
			parts = append(parts, alias+"__typename")
			g.feat["typename"]++
		case x < 0.22 && depth < g.cfg.MaxDepth:
			conds := g.conditionsFor(def)
			cond := ""
			tdef := def
			if g.chance(0.75) {
				c := conds[g.r.Intn(len(conds))]
				cond = " on " + c
				tdef = g.s.Types[c]
				g.feat["inline_typecond"]++
			}
			g.feat["inline_fragment"]++
			parts = append(parts, "..."+cond+g.boolDirective()+g.deferDirective()+" "+g.selectionSet(tdef, depth+1))
		case x < 0.34 && depth < g.cfg.MaxDepth:
			conds := g.conditionsFor(def)
			// reuse a finished fragment when possible
			var reuse []*fragDef
			for _, f := range g.frags {
				if f.done {
					for _, c := range conds {
						if c == f.on {
							reuse = append(reuse, f)
						}
					}
				}
			}
			var f *fragDef
			if len(reuse) > 0 && g.chance(0.5) {
				f = reuse[g.r.Intn(len(reuse))]
				g.feat["fragment_reuse"]++
			} else {
				c := conds[g.r.Intn(len(conds))]
				g.fragN++
				f = &fragDef{name: "F" + strconv.Itoa(g.fragN), on: c}
				g.frags = append(g.frags, f)
				f.body = g.selectionSet(g.s.Types[c], depth+1)
				f.done = true
			}
			g.feat["fragment_spread"]++
			spread := "..." + f.name + g.boolDirective() + g.deferDirective()
			parts = append(parts, spread)
			if g.chance(0.15) {
				// the same fragment spread twice in one selection set
				parts = append(parts, "..."+f.name+g.boolDirective())
				g.feat["fragment_twice"]++
			}
		default:
			if s := g.field(def, depth); s != "" {
				parts = append(parts, s)
			}
		}
	}
	if len(parts) == 0 {
		parts = append(parts, "__typename")
	}
	return "{ " + strings.Join(parts, " ") + " }"
}

// opDirectives occasionally applies one or two of the schema's executable directives declared for
// this kind of operation (QUERY / MUTATION), including those declared for that kind only.
func (g *gen) opDirectives(kind ast.Operation) string {
	loc := ast.LocationQuery
	if kind == ast.Mutation {
		loc = ast.LocationMutation
	}
	var names []string
	for n, d := range g.s.Directives {
		for _, l := range d.Locations {
			if l == loc {
				names = append(names, n)
			}
		}
	}
	p := 0.2
	if kind == ast.Mutation {
		p = 0.5 // mutations are the rarer kind in every workload
	}
	if len(names) == 0 || !g.chance(p) {
		return ""
	}
	sort.Strings(names)
	out := ""
	n := 1 + g.r.Intn(2)
	for i := 0; i < n && i < len(names); i++ {
		d := g.s.Directives[names[(g.r.Intn(len(names))+i)%len(names)]]
		if strings.Contains(out, "@"+d.Name+"(") || strings.HasSuffix(out, "@"+d.Name) {
			continue
		}
		var args []string
		for _, a := range d.Arguments {
			if a.Type.Name() == "String" && a.Type.Elem == nil {
				args = append(args, a.Name+": \"o"+strconv.Itoa(g.r.Intn(3))+"\"")
			}
		}
		out += " @" + d.Name
		if len(args) > 0 {
			out += "(" + strings.Join(args, ", ") + ")"
		}
		g.feat["operation_directive"]++
	}
	return out
}

// fieldDirective occasionally applies a custom executable directive (location FIELD) declared by
// the schema, with its String arguments filled in.
func (g *gen) fieldDirective() string {
	var names []string
	for n, d := range g.s.Directives {
		if n == "skip" || n == "include" || n == "defer" || n == "deprecated" {
			continue
		}
		for _, l := range d.Locations {
			if l == ast.LocationField {
				names = append(names, n)
			}
		}
	}
	if len(names) == 0 || !g.chance(0.12) {
		return ""
	}
	sort.Strings(names)
	d := g.s.Directives[names[g.r.Intn(len(names))]]
	var args []string
	for _, a := range d.Arguments {
		if a.Type.Name() == "String" && a.Type.Elem == nil {
			args = append(args, a.Name+": \"t"+strconv.Itoa(g.r.Intn(3))+"\"")
		}
	}
	g.feat["field_directive"]++
	if len(args) == 0 {
		return " @" + d.Name
	}
	return " @" + d.Name + "(" + strings.Join(args, ", ") + ")"
}

func isComposite(d *ast.Definition) bool {
	return d.Kind == ast.Object || d.Kind == ast.Interface || d.Kind == ast.Union
}

func (g *gen) field(def *ast.Definition, depth int) string {
	if def.Kind == ast.Union {
		return "__typename"
	}
	var cands []*ast.FieldDefinition
	for _, f := range def.Fields {
		if strings.HasPrefix(f.Name, "__") || strings.HasPrefix(f.Name, "_") {
			continue
		}
		if g.cfg.FieldFilter != nil && !g.cfg.FieldFilter(def.Name, f.Name) {
			continue
		}
		if g.cfg.FieldFilter == nil && (f.Name == "xsc" || f.Name == "xboom") {
			continue // custom-scalar argument field: driven by C02's own generator
		}
		ft := g.s.Types[f.Type.Name()]
		if ft != nil && isComposite(ft) && depth >= g.cfg.MaxDepth {
			continue
		}
		cands = append(cands, f)
	}
	if len(cands) == 0 {
		return "__typename"
	}
	// bias towards composite fields at shallow depth so operations are not trivially flat
	f := cands[g.r.Intn(len(cands))]
	if depth < 2 {
		for try := 0; try < 2; try++ {
			if ft := g.s.Types[f.Type.Name()]; ft != nil && isComposite(ft) {
				break
			}
			f = cands[g.r.Intn(len(cands))]
		}
	}
	var args []string
	for _, a := range f.Arguments {
		if g.cfg.ArgValue != nil {
			if lit := g.cfg.ArgValue(def.Name, f.Name, a.Name); lit != "" {
				args = append(args, a.Name+": "+lit)
				continue
			}
		}
		required := a.Type.NonNull && a.DefaultValue == nil
		if !required && g.chance(0.4) {
			continue
		}
		args = append(args, a.Name+": "+g.argValue(a.Type, 0))
	}
	argText := ""
	if len(args) > 0 {
		argText = "(" + strings.Join(args, ", ") + ")"
		g.feat["args"]++
	}
	alias := ""
	if len(args) > 0 {
		// a response key must map to one (field, args) pair: derive the alias from the arguments
		h := 0
		for _, c := range argText {
			h = (h*31 + int(c)) % 9973
		}
		alias = f.Name + "_" + strconv.Itoa(h) + ": "
	} else if g.chance(0.15) {
		alias = "x" + strconv.Itoa(g.r.Intn(2)) + "_" + f.Name + ": "
		g.feat["alias"]++
	}
	out := alias + f.Name + argText + g.boolDirective() + g.fieldDirective()
	ft := g.s.Types[f.Type.Name()]
	if ft != nil && isComposite(ft) {
		out += " " + g.selectionSet(ft, depth+1)
	}
	return out
}

var strVals = []string{"", "a", "hello", "q\"uote", "uni é", "x y"}

// argValue returns a literal (possibly a variable reference) valid for type t.
func (g *gen) argValue(t *ast.Type, depth int) string {
	if !g.cfg.NoVariables && depth == 0 && g.chance(0.35) {
		if v := g.argVar(t); v != "" {
			return "$" + v
		}
	}
	lit, _ := g.genValue(t, depth)
	return lit
}

// genValue produces a valid value for t both as GraphQL literal text and as the JSON value a
// client would send for a variable of that type.
func (g *gen) genValue(t *ast.Type, depth int) (string, any) {
	if !t.NonNull && g.chance(0.1) {
		g.feat["explicit_null"]++
		return "null", nil
	}
	if t.Elem != nil {
		if g.chance(0.15) && t.Elem.Elem == nil {
			// single value coerced to a list
			g.feat["single_to_list"]++
			return g.genValue(&ast.Type{NamedType: t.Elem.NamedType, NonNull: true}, depth+1)
		}
		n := g.r.Intn(3)
		var el []string
		vals := []any{}
		for i := 0; i < n; i++ {
			l, v := g.genValue(t.Elem, depth+1)
			el = append(el, l)
			vals = append(vals, v)
		}
		return "[" + strings.Join(el, ", ") + "]", vals
	}
	def := g.s.Types[t.NamedType]
	switch def.Kind {
	case ast.Enum:
		e := def.EnumValues[g.r.Intn(len(def.EnumValues))].Name
		return e, e
	case ast.InputObject:
		var fs []string
		m := map[string]any{}
		for _, f := range def.Fields {
			required := f.Type.NonNull && f.DefaultValue == nil
			if !required && (g.chance(0.5) || depth > 2) {
				continue
			}
			l, v := g.genValue(f.Type, depth+1)
			fs = append(fs, f.Name+": "+l)
			m[f.Name] = v
		}
		g.feat["input_object"]++
		return "{" + strings.Join(fs, ", ") + "}", m
	}
	switch def.Name {
	case "Int":
		i := g.r.Intn(2000) - 1000
		return strconv.Itoa(i), i
	case "Float":
		switch g.r.Intn(6) {
		case 0:
			i := g.r.Intn(100)
			return strconv.Itoa(i), i
		case 1:
			// not representable in float32 / needs all 53 bits
			f := []float64{0.1, 16777217, 3.141592653589793, 1e300, -2.2250738585072014e-308, 123456789.123456789}[g.r.Intn(6)]
			g.feat["float_needs_double_precision"]++
			return strconv.FormatFloat(f, 'g', -1, 64), f
		}
		f := float64(g.r.Intn(10000)) / 8
		return strconv.FormatFloat(f, 'f', -1, 64), f
	case "Boolean":
		b := g.chance(0.5)
		return strconv.FormatBool(b), b
	case "ID":
		if g.chance(0.3) {
			i := g.r.Intn(1000)
			return strconv.Itoa(i), i
		}
		s := "id" + strconv.Itoa(g.r.Intn(100))
		return strconv.Quote(s), s
	default:
		s := strVals[g.r.Intn(len(strVals))]
		return strconv.Quote(s), s
	}
}

// argVar declares (or reuses) a variable of exactly type t with a valid JSON value.
func (g *gen) argVar(t *ast.Type) string {
	n := "v" + strings.NewReplacer("[", "L", "]", "", "!", "N").Replace(strings.ToLower(t.String()))
	if t.Elem != nil || g.s.Types[t.Name()].Kind == ast.InputObject {
		// composite values differ per use: give each use its own variable
		n += strconv.Itoa(len(g.vars))
	}
	if _, ok := g.vars[n]; !ok {
		v := &varDef{name: n, typ: t.String()}
		lit, val := g.genValue(&ast.Type{NamedType: t.NamedType, Elem: t.Elem, NonNull: true}, 1)
		switch g.r.Intn(3) {
		case 0:
			v.val, v.provide = val, true
		case 1:
			v.def = lit
			if g.chance(0.4) {
				_, val2 := g.genValue(&ast.Type{NamedType: t.NamedType, Elem: t.Elem, NonNull: true}, 1)
				v.val, v.provide = val2, true
			}
		default:
			if t.NonNull {
				v.val, v.provide = val, true
			} else if g.chance(0.5) {
				v.val, v.provide = nil, true // explicit null
				g.feat["var_explicit_null"]++
			} else {
				g.feat["var_omitted"]++
			} // else: omitted entirely
		}
		g.vars[n] = v
		g.feat["arg_var"]++
	}
	return n
}
