// Package univ is the reflective "universal resolver": it fills the function fields of a
// stubgen Stub struct, a DirectiveRoot and a ComplexityRoot of any generated probe package, so
// one harness can drive servers generated at check time under every generator configuration.
//
// The values resolvers return come from a *world function* (Env.Eval): a pure function of
// (plan, object identity, field, canonical arguments). The reference executor (internal/ref)
// calls the same world function, so the real server and the reference see identical resolver
// outcomes whatever the schedule; everything else (collection, completion, null propagation,
// error paths, ordering) is computed independently on each side.
package univ

import (
	"context"
	"encoding/json"
	"fmt"
	"hash/fnv"
	"math"
	"reflect"
	"runtime"
	"sort"
	"strconv"
	"strings"
	"sync"
	"sync/atomic"
	"time"
	"unsafe"

	"github.com/99designs/gqlgen/graphql"
	"github.com/vektah/gqlparser/v2/ast"
	"github.com/vektah/gqlparser/v2/gqlerror"
)

// FieldMeta is emitted by gendrv's verifmeta plugin for every object field.
type FieldMeta struct {
	Object, Field, GoName string
	Resolver, Method      bool
	Concurrent            bool
	Args                  []string
	Directives            []string
}

// Probe describes one generated package (emitted as VerifProbe()).
type Probe struct {
	Name       string
	Options    map[string]any
	ObjTypes   map[string]reflect.Type
	InputTypes map[string]reflect.Type
	Fields     map[string]FieldMeta
	New        func(bind func(stub, directives, complexity any)) graphql.ExecutableSchema
}

// ---------------------------------------------------------------------------------------------
// Abstract values

type Kind int

const (
	KNull Kind = iota
	KScalar
	KObject
	KList
	KRogue // a Go value that satisfies the Go interface of a union but is none of its members
)

// Val is the abstract value tree shared by the universal resolver and the reference executor.
type Val struct {
	Kind   Kind
	Scalar any    // string | int64 | float64 | bool (JSON-comparable)
	Type   string // concrete GraphQL object type (KObject)
	Vid    string // object identity (KObject)
	List   []*Val
}

type Fault int

const (
	FaultNone Fault = iota
	FaultError
	FaultPanic
	// FaultErrList: the resolver reports several failures at once (it returns a gqlerror.List)
	FaultErrList
)

type Sched struct {
	Yields int           // runtime.Gosched() count before returning
	Sleep  time.Duration // sleep before returning
	Cancel bool          // cancel the run's context (if the run carries a cancel func) before returning
}

// Key identifies one resolver invocation point independent of aliases and schedules.
type Key struct {
	Object string
	Vid    string
	Field  string
	Args   string // canonical JSON of the coerced arguments ("" when none)
}

func (k Key) String() string { return k.Object + "#" + k.Vid + "." + k.Field + "(" + k.Args + ")" }

func H(parts ...string) uint64 {
	h := fnv.New64a()
	for _, p := range parts {
		h.Write([]byte(p))
		h.Write([]byte{0})
	}
	// final avalanche (fnv alone is weak in the low bits for short inputs)
	x := h.Sum64()
	x ^= x >> 33
	x *= 0xff51afd7ed558ccd
	x ^= x >> 33
	x *= 0xc4ceb9fe1a85ec53
	x ^= x >> 33
	return x
}

func vidOf(parts ...string) string { return strconv.FormatUint(H(parts...)%2176782336, 36) } // 36^6

// Plan decides every outcome of user code. Implementations must be pure functions.
type Plan interface {
	Fault(k Key) Fault
	// Null: inject a null at value position pos ("" = the field's own value, "/2/0" = nested element).
	Null(k Key, pos string) bool
	ListLen(k Key, pos string) int
	Sched(k Key) Sched
	// Directive outcome for directive `name` at response path `path`: 0 pass, 1 error, 2 null, 3 panic.
	Directive(path, name string) int
}

// RoguePlan is an optional extension of Plan: Rogue decides whether the value of a union-typed
// position is a Go value of a type the generated type switch does not know (user code returning an
// unexpected implementation of the union's Go interface). Only probes that registered such a type
// (RegisterRogue) are affected, and only plans that implement this interface.
// NonFinitePlan: a plan that lets NULLABLE Float positions hold NaN / +Inf / -Inf, values that
// have no JSON form: gqlgen's Float marshaler fails for them when the payload is written (null at
// that position plus one error with its path). At a non-null position that late failure cannot
// propagate any more, so the workloads keep to nullable positions.
type NonFinitePlan interface {
	NonFinite(k Key, pos string) bool
}

type RoguePlan interface {
	Rogue(k Key, pos string) bool
}

var (
	rogueMu  sync.RWMutex
	rogueReg = map[string]reflect.Type{} // "<probe base>|<union>"
)

// RegisterRogue is called from the init() of a probe's hand-written Go file.
func RegisterRogue(probeBase, union string, rt reflect.Type) {
	rogueMu.Lock()
	rogueReg[probeBase+"|"+union] = rt
	rogueMu.Unlock()
}

func rogueOf(probe, union string) reflect.Type {
	rogueMu.RLock()
	defer rogueMu.RUnlock()
	for k, rt := range rogueReg {
		i := strings.IndexByte(k, '|')
		if k[i+1:] == union && strings.HasPrefix(probe, k[:i]) {
			return rt
		}
	}
	return nil
}

// SeedPlan is the standard seeded plan with optional forced outcomes.
type SeedPlan struct {
	Seed         uint64
	ErrPermille  int
	PanPermille  int
	NullPermille int
	DirPermille  int // split evenly between error and null outcomes
	MaxList      int
	SchedMode    int // 0 none, 1 random yields, 2 delay by hash, 3 reverse, 4 straggler, 5 slow (ms) delay by hash
	ListPermille int // resolver returns a list of three errors
	// NonFinitePermille: share of nullable Float positions holding NaN / +Inf / -Inf
	NonFinitePermille int
	ForceFault        map[string]Fault // Key.String() -> fault
	// FaultInInterceptor: the resolver faults of this plan are raised by the field interceptor that
	// wraps the resolver (after the resolver returned) instead of by the resolver itself
	FaultInInterceptor bool
	ForceDir           map[string]int  // path|name -> outcome
	ArgDirs            bool            // also let argument / input-field directives (name prefix "chk") fail
	CancelAt           map[string]bool // Key.String() -> cancel the context in that invocation
}

func (p *SeedPlan) r(parts ...string) uint64 {
	return H(append([]string{strconv.FormatUint(p.Seed, 10)}, parts...)...)
}

func (p *SeedPlan) NonFinite(k Key, pos string) bool {
	return p.NonFinitePermille > 0 && int(p.r("nonfinite", k.String(), pos)%1000) < p.NonFinitePermille
}

func (p *SeedPlan) Fault(k Key) Fault {
	if f, ok := p.ForceFault[k.String()]; ok {
		return f
	}
	x := int(p.r("fault", k.String()) % 1000)
	if x < p.ErrPermille {
		return FaultError
	}
	if x < p.ErrPermille+p.PanPermille {
		return FaultPanic
	}
	if x < p.ErrPermille+p.PanPermille+p.ListPermille {
		return FaultErrList
	}
	return FaultNone
}

func (p *SeedPlan) Null(k Key, pos string) bool {
	return int(p.r("null", k.String(), pos)%1000) < p.NullPermille
}

func (p *SeedPlan) ListLen(k Key, pos string) int {
	m := p.MaxList
	if m <= 0 {
		m = 3
	}
	return int(p.r("len", k.String(), pos) % uint64(m+1))
}

func (p *SeedPlan) Sched(k Key) Sched {
	var s Sched
	x := p.r("sched", k.String())
	switch p.SchedMode {
	case 1:
		s.Yields = int(x % 8)
	case 2:
		s.Sleep = time.Duration(x%400) * time.Microsecond
	case 3:
		s.Sleep = time.Duration(400-x%400) * time.Microsecond
	case 4:
		if x%7 == 0 {
			s.Sleep = 2 * time.Millisecond
		}
	case 5:
		s.Sleep = time.Duration(x%3000) * time.Microsecond
	}
	if p.CancelAt[k.String()] {
		s.Cancel = true
	}
	return s
}

func (p *SeedPlan) Directive(path, name string) int {
	if f, ok := p.ForceDir[path+"|"+name]; ok {
		return f
	}
	if !p.ArgDirs && strings.HasPrefix(name, "chk") {
		return 0
	}
	x := int(p.r("dir", path, name) % 1000)
	if x < p.DirPermille/2 {
		return 1
	}
	if x < p.DirPermille {
		if path == "" {
			// an operation directive that answers (nil, nil) is not a defined way to null an
			// operation (gqlgen reports "unexpected type <nil> from directive"): it fails instead
			return 1
		}
		return 2
	}
	return 0
}

// ---------------------------------------------------------------------------------------------
// Run: per-request state carried in the context

type Event struct {
	Seq    int64  `json:"seq"`
	End    int64  `json:"end"`
	Kind   string `json:"kind"` // resolver | directive | complexity
	Object string `json:"object,omitempty"`
	Vid    string `json:"vid,omitempty"`
	Field  string `json:"field,omitempty"`
	Args   string `json:"args,omitempty"`
	Path   string `json:"path,omitempty"`
	Name   string `json:"name,omitempty"` // directive name
	Out    string `json:"out,omitempty"`  // outcome summary
	G      int64  `json:"g,omitempty"`    // goroutine id
}

type Run struct {
	Plan   Plan
	Cancel context.CancelFunc // optional: invoked by Sched.Cancel
	// RegisterExt: every resolver invocation registers one response extension (its own key), as
	// tracing / cost-reporting user code does from concurrently running resolvers
	RegisterExt bool
	clock       atomic.Int64
	mu          sync.Mutex
	events      []*Event
	open        atomic.Int64 // resolver invocations currently inside user code
}

type runKey struct{}

// IcProbe travels from a field interceptor to the resolver it wraps: under a plan with
// FaultInInterceptor the resolver does not fail itself but reports here which fault its key has.
type IcProbe struct {
	Fault Fault
	K     Key
}

type icKey struct{}

func WithIcProbe(ctx context.Context, p *IcProbe) context.Context {
	return context.WithValue(ctx, icKey{}, p)
}

func interceptorMode(p Plan) bool {
	sp, ok := p.(*SeedPlan)
	return ok && sp.FaultInInterceptor
}

// InterceptorMode reports whether the run's plan raises its resolver faults in the field interceptor.
func InterceptorMode(ctx context.Context) bool {
	r := GetRun(ctx)
	return r != nil && interceptorMode(r.Plan)
}

func WithRun(ctx context.Context, r *Run) context.Context { return context.WithValue(ctx, runKey{}, r) }
func GetRun(ctx context.Context) *Run {
	r, _ := ctx.Value(runKey{}).(*Run)
	return r
}

func (r *Run) begin(e *Event) *Event {
	e.Seq = r.clock.Add(1)
	r.mu.Lock()
	r.events = append(r.events, e)
	r.mu.Unlock()
	return e
}

func (r *Run) finish(e *Event, out string) {
	r.mu.Lock()
	e.End = r.clock.Add(1)
	e.Out = out
	r.mu.Unlock()
}

// Events returns a snapshot of the log ordered by start sequence.
func (r *Run) Events() []Event {
	r.mu.Lock()
	defer r.mu.Unlock()
	out := make([]Event, len(r.events))
	for i, e := range r.events {
		out[i] = *e
	}
	sort.Slice(out, func(i, j int) bool { return out[i].Seq < out[j].Seq })
	return out
}

func (r *Run) Open() int64 { return r.open.Load() }

// ---------------------------------------------------------------------------------------------
// Env: one bound probe

type Env struct {
	Probe  *Probe
	ES     graphql.ExecutableSchema
	Schema *ast.Schema
	// ResultTypes: "Object.field" -> Go result type of the resolver (chan element type for streams).
	ResultTypes map[string]reflect.Type
	// ArgTypes: "Object.field" -> Go types of the resolver's GraphQL arguments, in schema order.
	ArgTypes map[string][]reflect.Type
	// DefaultPlan is used when the context carries no Run (e.g. complexity calls).
	DefaultPlan Plan
	// ComplexityFn, when set, backs every bound ComplexityRoot function.
	ComplexityFn func(object, field string, child int, args map[string]any) int
	// ComplexityWant selects which fields get a custom complexity function (nil = none).
	ComplexityWant func(object, field string) bool
	// StreamCount decides how many values a subscription resolver emits (default 3).
	StreamCount func(k Key) int
}

// Bind constructs the executable schema of a probe with every resolver, directive and (optionally)
// complexity function implemented by the universal resolver.
func Bind(p *Probe, opts ...func(*Env)) *Env {
	e := &Env{Probe: p, ResultTypes: map[string]reflect.Type{}, ArgTypes: map[string][]reflect.Type{},
		DefaultPlan: &SeedPlan{Seed: 1}}
	for _, o := range opts {
		o(e)
	}
	e.ES = p.New(func(stub, directives, complexity any) {
		e.bindStub(stub)
		e.bindDirectives(directives)
		if e.ComplexityFn != nil {
			e.bindComplexity(complexity)
		}
	})
	e.Schema = e.ES.Schema()
	registerEnv(e)
	return e
}

var (
	ctxType = reflect.TypeOf((*context.Context)(nil)).Elem()
	errType = reflect.TypeOf((*error)(nil)).Elem()
)

func goid() int64 {
	var buf [64]byte
	n := runtime.Stack(buf[:], false)
	f := strings.Fields(string(buf[:n]))
	if len(f) >= 2 {
		id, _ := strconv.ParseInt(f[1], 10, 64)
		return id
	}
	return 0
}

func (e *Env) bindStub(stub any) {
	sv := reflect.ValueOf(stub).Elem()
	st := sv.Type()
	for i := 0; i < st.NumField(); i++ {
		grp := st.Field(i)
		if grp.Type.Kind() != reflect.Struct || !strings.HasSuffix(grp.Name, "Resolver") {
			continue
		}
		object := strings.TrimSuffix(grp.Name, "Resolver")
		gv := sv.Field(i)
		if !grp.IsExported() {
			// stubgen names the group after the raw type name: for a type whose name starts with a
			// lower-case letter the group is unexported, reachable from here only through its address
			gv = reflect.NewAt(grp.Type, unsafe.Pointer(gv.UnsafeAddr())).Elem()
		}
		for j := 0; j < grp.Type.NumField(); j++ {
			ff := grp.Type.Field(j)
			if ff.Type.Kind() != reflect.Func {
				continue
			}
			meta, ok := e.metaByGoName(object, ff.Name)
			if !ok {
				continue // input-object resolvers etc: left nil
			}
			gv.Field(j).Set(e.makeResolver(meta, ff.Type))
		}
	}
}

func (e *Env) metaByGoName(object, goName string) (FieldMeta, bool) {
	for _, m := range e.Probe.Fields {
		if strings.EqualFold(m.Object, object) && m.GoName == goName && m.Resolver {
			return m, true
		}
	}
	return FieldMeta{}, false
}

func (e *Env) isRoot(object string) bool {
	// Schema is not known yet while binding; decide from ObjTypes: root objects have no Go type.
	_, has := e.Probe.ObjTypes[object]
	return !has
}

func (e *Env) makeResolver(meta FieldMeta, ft reflect.Type) reflect.Value {
	root := e.isRoot(meta.Object)
	argStart := 1
	if !root {
		argStart = 2
	}
	key := meta.Object + "." + meta.Field
	rt := ft.Out(0)
	stream := false
	if rt.Kind() == reflect.Chan {
		stream = true
		e.ResultTypes[key] = rt.Elem()
	} else {
		e.ResultTypes[key] = rt
	}
	var ats []reflect.Type
	for i := argStart; i < ft.NumIn(); i++ {
		ats = append(ats, ft.In(i))
	}
	e.ArgTypes[key] = ats
	return reflect.MakeFunc(ft, func(in []reflect.Value) []reflect.Value {
		ctx := in[0].Interface().(context.Context)
		run := GetRun(ctx)
		plan := e.DefaultPlan
		if run != nil {
			plan = run.Plan
		}
		vid := "root:" + meta.Object
		if !root {
			vid = VidOfObj(in[1])
		}
		args := map[string]any{}
		for i := argStart; i < len(in); i++ {
			if i-argStart < len(meta.Args) {
				args[meta.Args[i-argStart]] = Canon(in[i])
			}
		}
		k := Key{Object: meta.Object, Vid: vid, Field: meta.Field, Args: CanonJSON(args)}
		var ev *Event
		if run != nil {
			run.open.Add(1)
			ev = run.begin(&Event{Kind: "resolver", Object: meta.Object, Vid: vid, Field: meta.Field, Args: k.Args,
				Path: graphql.GetPath(ctx).String(), G: goid()})
		}
		done := func(out string) {
			if run != nil {
				run.finish(ev, out)
				run.open.Add(-1)
			}
		}
		if run != nil && run.RegisterExt {
			graphql.RegisterExtension(ctx, "u"+strconv.FormatInt(ev.Seq, 10), 1)
		}
		s := plan.Sched(k)
		for i := 0; i < s.Yields; i++ {
			runtime.Gosched()
		}
		if s.Sleep > 0 {
			time.Sleep(s.Sleep)
		}
		if s.Cancel && run != nil && run.Cancel != nil {
			run.Cancel()
		}
		zero := reflect.Zero(ft.Out(0))
		nilErr := reflect.Zero(errType)
		flt := plan.Fault(k)
		if pr, _ := ctx.Value(icKey{}).(*IcProbe); pr != nil && flt != FaultNone && interceptorMode(plan) {
			// the wrapping interceptor fails on our behalf, after we returned
			pr.Fault, pr.K = flt, k
			flt = FaultNone
		}
		switch flt {
		case FaultError:
			done("error")
			return []reflect.Value{zero, reflect.ValueOf(&UserError{Msg: ErrText(k)}).Convert(errType)}
		case FaultPanic:
			done("panic")
			panic(PanicText(k))
		case FaultErrList:
			done("errors")
			return []reflect.Value{zero, reflect.ValueOf(ErrList(k)).Convert(errType)}
		}
		if stream {
			n := 3
			if e.StreamCount != nil {
				n = e.StreamCount(k)
			}
			ch := reflect.MakeChan(reflect.ChanOf(reflect.BothDir, rt.Elem()), 0)
			go func() {
				defer ch.Close()
				for i := 0; i < n; i++ {
					v := e.Value(plan, k, "#"+strconv.Itoa(i), e.fieldType(meta), rt.Elem())
					gv := e.Build(plan, v, rt.Elem())
					chosen, _, _ := reflect.Select([]reflect.SelectCase{
						{Dir: reflect.SelectSend, Chan: ch, Send: gv},
						{Dir: reflect.SelectRecv, Chan: reflect.ValueOf(ctx.Done())},
					})
					if chosen == 1 {
						return
					}
				}
			}()
			done("stream")
			return []reflect.Value{ch.Convert(rt), nilErr}
		}
		if meta.Field == "xboom" && len(in) == argStart+1 {
			// harness scalar echo: the resolver hands its argument back (nil stays nil)
			a := in[argStart]
			done("echo")
			if a.Type() == rt {
				return []reflect.Value{a, nilErr}
			}
			if a.Kind() == reflect.Ptr && !a.IsNil() && a.Type().Elem() == rt {
				return []reflect.Value{a.Elem(), nilErr}
			}
			if rt.Kind() == reflect.Ptr && a.Type() == rt.Elem() {
				p := reflect.New(rt.Elem())
				p.Elem().Set(a)
				return []reflect.Value{p, nilErr}
			}
			return []reflect.Value{reflect.Zero(rt), nilErr}
		}
		v := e.Value(plan, k, "", e.fieldType(meta), rt)
		gv := e.Build(plan, v, rt)
		done("value")
		return []reflect.Value{gv, nilErr}
	})
}

// UserError is the error type returned by faulting resolvers and directives.
type UserError struct{ Msg string }

func (u *UserError) Error() string { return u.Msg }

// ErrListN is the number of errors a FaultErrList resolver reports.
const ErrListN = 3

// ErrList is what a FaultErrList resolver returns: several plain errors in one gqlerror.List.
func ErrList(k Key) gqlerror.List {
	var l gqlerror.List
	for i := 0; i < ErrListN; i++ {
		l = append(l, gqlerror.Errorf("%s#%d", ErrText(k), i))
	}
	return l
}

func ErrText(k Key) string   { return "E!" + strconv.FormatUint(H("err", k.String())%1000000, 36) }
func PanicText(k Key) string { return "P!" + strconv.FormatUint(H("pan", k.String())%1000000, 36) }
func DirErrText(path, name string) string {
	return "D!" + name + "!" + strconv.FormatUint(H("direrr", path, name)%1000000, 36)
}

func (e *Env) fieldType(meta FieldMeta) *ast.Type {
	def := e.Schema.Types[meta.Object]
	if def == nil {
		// root types may be renamed; search by name case-insensitively
		for n, d := range e.Schema.Types {
			if strings.EqualFold(n, meta.Object) {
				def = d
			}
		}
	}
	if def == nil {
		panic("univ: unknown object " + meta.Object)
	}
	f := def.Fields.ForName(meta.Field)
	if f == nil {
		panic("univ: unknown field " + meta.Object + "." + meta.Field)
	}
	return f.Type
}

// VidOfObj extracts the identity the world function stored in a model value.
func VidOfObj(v reflect.Value) string {
	for v.Kind() == reflect.Ptr || v.Kind() == reflect.Interface {
		if v.IsNil() {
			return "nil"
		}
		v = v.Elem()
	}
	if v.Kind() == reflect.Struct {
		f := v.FieldByName("Vid")
		if f.IsValid() && f.Kind() == reflect.String {
			return f.String()
		}
	}
	if v.Kind() == reflect.Map {
		x := v.MapIndex(reflect.ValueOf("vid"))
		if x.IsValid() {
			return fmt.Sprint(x.Interface())
		}
	}
	return "?"
}

// GoNilable reports whether a Go type can hold nil in a way gqlgen maps to GraphQL null.
func GoNilable(t reflect.Type) bool {
	switch t.Kind() {
	case reflect.Ptr, reflect.Interface, reflect.Map:
		return true
	}
	return false
}

// Value is the world function for one value position.
func (e *Env) Value(plan Plan, k Key, pos string, t *ast.Type, rt reflect.Type) *Val {
	if t.Elem != nil { // list
		srt := rt
		for srt.Kind() == reflect.Ptr {
			srt = srt.Elem()
		}
		if !t.NonNull && plan.Null(k, pos) {
			return &Val{Kind: KNull}
		}
		n := plan.ListLen(k, pos)
		l := &Val{Kind: KList, List: make([]*Val, n)}
		for i := 0; i < n; i++ {
			l.List[i] = e.Value(plan, k, pos+"/"+strconv.Itoa(i), t.Elem, srt.Elem())
		}
		return l
	}
	// A null may be injected where GraphQL allows it, or - to provoke non-null violations - where
	// the Go type can express it.
	if GoNilable(rt) && plan.Null(k, pos) {
		// for a NULLABLE interface / union position user code may hold the null as a typed nil pointer
		// (`var u *User; return u, nil`): half of the nulls at such positions are built that way.
		// (At a non-null position gqlgen completes a typed nil to null WITHOUT the "must not be null"
		// error, so the null propagates with no error at all: observed, DESIGN 8.7; the workloads
		// keep to the nullable case, whose outcome is defined.)
		if def := e.Schema.Types[t.NamedType]; def != nil && !t.NonNull && (def.Kind == ast.Interface || def.Kind == ast.Union) && rt.Kind() == reflect.Interface && H("typednil", k.String(), pos)%2 == 0 {
			var names []string
			for _, p := range e.Schema.GetPossibleTypes(def) {
				if ot, ok := e.Probe.ObjTypes[p.Name]; ok && ot.Kind() == reflect.Struct {
					names = append(names, p.Name)
				}
			}
			sort.Strings(names)
			if len(names) > 0 {
				return &Val{Kind: KNull, Type: names[H("typednilpick", k.String(), pos)%uint64(len(names))]}
			}
		}
		return &Val{Kind: KNull}
	}
	if !t.NonNull && !GoNilable(rt) {
		// nullable GraphQL type bound to a non-nilable Go type: cannot be null
		_ = 0
	}
	def := e.Schema.Types[t.NamedType]
	switch def.Kind {
	case ast.Object:
		return &Val{Kind: KObject, Type: def.Name, Vid: vidOf(k.String(), pos)}
	case ast.Interface, ast.Union:
		poss := e.Schema.GetPossibleTypes(def)
		names := make([]string, 0, len(poss))
		for _, p := range poss {
			if _, ok := e.Probe.ObjTypes[p.Name]; ok {
				names = append(names, p.Name)
			}
		}
		sort.Strings(names)
		if len(names) == 0 {
			return &Val{Kind: KNull}
		}
		if rp, ok := plan.(RoguePlan); ok && rogueOf(e.Probe.Name, def.Name) != nil && rp.Rogue(k, pos) {
			return &Val{Kind: KRogue, Type: def.Name}
		}
		pick := names[H("pick", k.String(), pos)%uint64(len(names))]
		return &Val{Kind: KObject, Type: pick, Vid: vidOf(k.String(), pos)}
	case ast.Enum:
		vals := def.EnumValues
		return &Val{Kind: KScalar, Scalar: vals[H("enum", k.String(), pos)%uint64(len(vals))].Name}
	default:
		if def.Name == "Float" && !t.NonNull && (rt.Kind() == reflect.Float64 || rt.Kind() == reflect.Ptr && rt.Elem().Kind() == reflect.Float64) {
			if np, ok := plan.(NonFinitePlan); ok && np.NonFinite(k, pos) {
				return &Val{Kind: KScalar, Scalar: []float64{math.NaN(), math.Inf(1), math.Inf(-1)}[H("nonfinitepick", k.String(), pos)%3]}
			}
		}
		return &Val{Kind: KScalar, Scalar: scalarFor(def.Name, H("scalar", k.String(), pos))}
	}
}

var sampleStrings = []string{"", "a", "hello world", "quote\"back\\slash", "tab\tnl\n", "unicode é ☃ 😀", "</script>", " sep", "0", "null"}

func scalarFor(name string, h uint64) any {
	switch name {
	case "Int":
		switch h % 5 {
		case 0:
			return int64(0)
		case 1:
			return int64(-1)
		case 2:
			return int64(2147483647)
		case 3:
			return int64(-2147483648)
		}
		return int64(h>>8%2000) - 1000
	case "Float":
		switch h % 4 {
		case 0:
			return float64(0)
		case 1:
			return 1.5
		case 2:
			return -2.25e10
		}
		return float64(int64(h>>8%100000)) / 64
	case "Boolean":
		return h%2 == 0
	case "ID":
		return "id" + strconv.FormatUint(h%100000, 36)
	default: // String and custom scalars bound to string
		if h%3 == 0 {
			return sampleStrings[(h>>8)%uint64(len(sampleStrings))]
		}
		return "s" + strconv.FormatUint(h%1000000, 36)
	}
}

// StructField is the world function for a struct-backed (non-resolver) field of an object.
func (e *Env) StructField(plan Plan, object, vid, field string, t *ast.Type, rt reflect.Type) *Val {
	return e.Value(plan, Key{Object: object, Vid: vid, Field: field}, "", t, rt)
}

// StructFieldType returns the Go type of the struct field backing object.field (ok=false if none).
func (e *Env) StructFieldType(object, field string) (reflect.Type, bool) {
	meta, ok := e.Probe.Fields[object+"."+field]
	if !ok || meta.Resolver || meta.Method {
		return nil, false
	}
	ot, ok := e.Probe.ObjTypes[object]
	if !ok || ot.Kind() != reflect.Struct {
		return nil, false
	}
	sf, ok := ot.FieldByName(meta.GoName)
	if !ok {
		return nil, false
	}
	return sf.Type, true
}

// Build converts an abstract value into a Go value of type rt.
func (e *Env) Build(plan Plan, v *Val, rt reflect.Type) reflect.Value {
	if v.Kind == KNull {
		if v.Type != "" && rt.Kind() == reflect.Interface {
			if pz := reflect.Zero(reflect.PointerTo(e.Probe.ObjTypes[v.Type])); pz.Type().Implements(rt) {
				return pz.Convert(rt) // typed nil pointer inside a non-nil interface value
			}
		}
		return reflect.Zero(rt)
	}
	if rt.Kind() == reflect.Ptr {
		p := reflect.New(rt.Elem())
		p.Elem().Set(e.Build(plan, v, rt.Elem()))
		return p
	}
	switch v.Kind {
	case KRogue:
		return reflect.New(rogueOf(e.Probe.Name, v.Type)).Elem().Convert(rt)
	case KList:
		s := reflect.MakeSlice(rt, len(v.List), len(v.List))
		for i, el := range v.List {
			s.Index(i).Set(e.Build(plan, el, rt.Elem()))
		}
		return s
	case KObject:
		ot := e.Probe.ObjTypes[v.Type]
		if ot.Kind() == reflect.Map {
			return e.buildMapObject(plan, v)
		}
		ov := reflect.New(ot).Elem()
		if f := ov.FieldByName("Vid"); f.IsValid() && f.Kind() == reflect.String {
			f.SetString(v.Vid)
		}
		def := e.Schema.Types[v.Type]
		for _, fd := range def.Fields {
			if fd.Name == "vid" {
				continue
			}
			sft, ok := e.StructFieldType(v.Type, fd.Name)
			if !ok {
				continue
			}
			meta := e.Probe.Fields[v.Type+"."+fd.Name]
			child := e.StructField(plan, v.Type, v.Vid, fd.Name, fd.Type, sft)
			ov.FieldByName(meta.GoName).Set(e.Build(plan, child, sft))
		}
		switch rt.Kind() {
		case reflect.Interface:
			// model interfaces are implemented by value or pointer receivers; prefer pointer
			pv := reflect.New(ot)
			pv.Elem().Set(ov)
			if pv.Type().Implements(rt) {
				return pv.Convert(rt)
			}
			return ov.Convert(rt)
		case reflect.Struct:
			return ov
		}
		panic(fmt.Sprintf("univ: cannot build object %s into %v", v.Type, rt))
	case KScalar:
		out := reflect.New(rt).Elem()
		switch rt.Kind() {
		case reflect.String:
			out.SetString(fmt.Sprint(v.Scalar))
		case reflect.Int, reflect.Int8, reflect.Int16, reflect.Int32, reflect.Int64:
			out.SetInt(toInt(v.Scalar))
		case reflect.Uint, reflect.Uint8, reflect.Uint16, reflect.Uint32, reflect.Uint64:
			out.SetUint(uint64(toInt(v.Scalar)))
		case reflect.Float32, reflect.Float64:
			out.SetFloat(toFloat(v.Scalar))
		case reflect.Bool:
			out.SetBool(v.Scalar.(bool))
		case reflect.Interface:
			out.Set(reflect.ValueOf(v.Scalar))
		default:
			panic(fmt.Sprintf("univ: cannot build scalar %v into %v", v.Scalar, rt))
		}
		return out
	}
	panic("unreachable")
}

func toInt(x any) int64 {
	switch n := x.(type) {
	case int64:
		return n
	case float64:
		return int64(n)
	}
	return 0
}

func toFloat(x any) float64 {
	switch n := x.(type) {
	case int64:
		return float64(n)
	case float64:
		return n
	}
	return 0
}

// ---------------------------------------------------------------------------------------------
// Directives

func (e *Env) bindDirectives(dr any) {
	dv := reflect.ValueOf(dr).Elem()
	dt := dv.Type()
	for i := 0; i < dt.NumField(); i++ {
		f := dt.Field(i)
		if f.Type.Kind() != reflect.Func {
			continue
		}
		name := f.Name
		ft := f.Type
		dv.Field(i).Set(reflect.MakeFunc(ft, func(in []reflect.Value) []reflect.Value {
			ctx := in[0].Interface().(context.Context)
			next := in[2].Interface().(graphql.Resolver)
			run := GetRun(ctx)
			plan := e.DefaultPlan
			if run != nil {
				plan = run.Plan
			}
			path := graphql.GetPath(ctx).String()
			tag := ""
			for j := 3; j < len(in); j++ {
				tag += "," + CanonJSON(Canon(in[j]))
			}
			dname := strings.ToLower(name[:1]) + name[1:] + tag
			out := plan.Directive(path, dname)
			var ev *Event
			if run != nil {
				ev = run.begin(&Event{Kind: "directive", Name: dname, Path: path, G: goid()})
			}
			fin := func(s string) {
				if run != nil {
					run.finish(ev, s)
				}
			}
			anyT := ft.Out(0)
			switch out {
			case 1:
				fin("error")
				return []reflect.Value{reflect.Zero(anyT), reflect.ValueOf(&UserError{Msg: DirErrText(path, dname)}).Convert(errType)}
			case 2:
				fin("null")
				return []reflect.Value{reflect.Zero(anyT), reflect.Zero(errType)}
			case 3:
				fin("panic")
				panic("P!dir!" + dname)
			}
			res, err := next(ctx)
			fin("pass")
			rv := reflect.Zero(anyT)
			if res != nil {
				rv = reflect.ValueOf(res).Convert(anyT)
			}
			ev2 := reflect.Zero(errType)
			if err != nil {
				ev2 = reflect.ValueOf(err).Convert(errType)
			}
			return []reflect.Value{rv, ev2}
		}))
	}
}

// ---------------------------------------------------------------------------------------------
// Complexity

func (e *Env) bindComplexity(cr any) {
	cv := reflect.ValueOf(cr).Elem()
	ct := cv.Type()
	for i := 0; i < ct.NumField(); i++ {
		grp := ct.Field(i)
		if grp.Type.Kind() != reflect.Struct {
			continue
		}
		gv := cv.Field(i)
		for j := 0; j < grp.Type.NumField(); j++ {
			ff := grp.Type.Field(j)
			if ff.Type.Kind() != reflect.Func {
				continue
			}
			var meta FieldMeta
			found := false
			for _, m := range e.Probe.Fields {
				if strings.EqualFold(m.Object, grp.Name) && m.GoName == ff.Name {
					meta, found = m, true
				}
			}
			if !found || (e.ComplexityWant != nil && !e.ComplexityWant(meta.Object, meta.Field)) {
				continue
			}
			m := meta
			gv.Field(j).Set(reflect.MakeFunc(ff.Type, func(in []reflect.Value) []reflect.Value {
				args := map[string]any{}
				for a := 1; a < len(in); a++ {
					if a-1 < len(m.Args) {
						args[m.Args[a-1]] = Canon(in[a])
					}
				}
				r := e.ComplexityFn(m.Object, m.Field, int(in[0].Int()), args)
				return []reflect.Value{reflect.ValueOf(r)}
			}))
		}
	}
}

// ---------------------------------------------------------------------------------------------
// Canonicalisation of Go argument values

var timeType = reflect.TypeOf(time.Time{})

// Canon projects a Go argument value to a JSON-comparable tree: structs through their json tags,
// nil pointers to nil, Omittable to {"$set":bool,"value":...}.
func Canon(v reflect.Value) any {
	if !v.IsValid() {
		return nil
	}
	switch v.Kind() {
	case reflect.Ptr, reflect.Interface:
		if v.IsNil() {
			return nil
		}
		return Canon(v.Elem())
	case reflect.Struct:
		if v.Type() == timeType {
			return v.Interface().(time.Time).UTC().Format(time.RFC3339Nano)
		}
		if strings.HasPrefix(v.Type().Name(), "Omittable[") && v.CanInterface() {
			if m := v.MethodByName("ValueOK"); m.IsValid() {
				res := m.Call(nil)
				if !res[1].Bool() {
					return map[string]any{"$set": false}
				}
				return map[string]any{"$set": true, "value": Canon(res[0])}
			}
		}
		out := map[string]any{}
		t := v.Type()
		for i := 0; i < t.NumField(); i++ {
			sf := t.Field(i)
			if !sf.IsExported() {
				continue
			}
			name := sf.Name
			if tag := sf.Tag.Get("json"); tag != "" {
				name = strings.Split(tag, ",")[0]
			}
			if name == "-" {
				continue
			}
			out[name] = Canon(v.Field(i))
		}
		return out
	case reflect.Slice, reflect.Array:
		if v.Kind() == reflect.Slice && v.IsNil() {
			return nil
		}
		out := make([]any, v.Len())
		for i := range out {
			out[i] = Canon(v.Index(i))
		}
		return out
	case reflect.Map:
		if v.IsNil() {
			return nil
		}
		out := map[string]any{}
		it := v.MapRange()
		for it.Next() {
			out[fmt.Sprint(it.Key().Interface())] = Canon(it.Value())
		}
		return out
	case reflect.String:
		return v.String()
	case reflect.Bool:
		return v.Bool()
	case reflect.Int, reflect.Int8, reflect.Int16, reflect.Int32, reflect.Int64:
		return v.Int()
	case reflect.Uint, reflect.Uint8, reflect.Uint16, reflect.Uint32, reflect.Uint64:
		return v.Uint()
	case reflect.Float32, reflect.Float64:
		return v.Float()
	}
	return fmt.Sprintf("<%v>", v.Type())
}

// CanonJSON renders a canonical tree deterministically ("" for an empty argument map).
func CanonJSON(x any) string {
	if m, ok := x.(map[string]any); ok && len(m) == 0 {
		return ""
	}
	b, err := json.Marshal(x)
	if err != nil {
		return "!" + err.Error()
	}
	return string(b)
}

// Eval is the world function at field granularity, used by the reference executor: the outcome of
// resolving object(vid).field(args). isResolver=false for struct-backed fields (which cannot fail).
func (e *Env) Eval(plan Plan, object, vid, field, argsJSON string) (Fault, *Val, bool) {
	meta, ok := e.Probe.Fields[object+"."+field]
	if !ok {
		return FaultNone, &Val{Kind: KNull}, false
	}
	def := e.Schema.Types[object]
	fd := def.Fields.ForName(field)
	if meta.Method && !meta.Resolver {
		return e.evalMethod(plan, object, vid, field, argsJSON)
	}
	if e.isMapObject(object) && !meta.Resolver {
		return FaultNone, e.evalMapField(plan, object, vid, field), false
	}
	if meta.Resolver {
		k := Key{Object: object, Vid: vid, Field: field, Args: argsJSON}
		if f := plan.Fault(k); f != FaultNone {
			return f, nil, true
		}
		return FaultNone, e.Value(plan, k, "", fd.Type, e.ResultTypes[object+"."+field]), true
	}
	if field == "vid" {
		return FaultNone, &Val{Kind: KScalar, Scalar: vid}, false
	}
	sft, ok := e.StructFieldType(object, field)
	if !ok {
		return FaultNone, &Val{Kind: KNull}, false
	}
	return FaultNone, e.StructField(plan, object, vid, field, fd.Type, sft), false
}
