package univ

// Support for probes whose models are hand-written Go types (autobind-style): fields bound to
// methods (with / without context, with / without error, (value, ok) methods, methods taking
// arguments) and object types bound to map[string]any. The methods of such a model delegate to
// Method below, so their outcomes come from the same world function the reference executor uses.

import (
	"context"
	"reflect"
	"sync"

	"github.com/99designs/gqlgen/graphql"
	"github.com/vektah/gqlparser/v2/ast"
)

type MethodKind int

const (
	MCtxErr MethodKind = iota // func (o *T) F(ctx, args...) (R, error)  -- may fail, follows the run's plan
	MNoErr                    // func (o *T) F() R                        -- no context: static plan, cannot fail
	MVOk                      // func (o *T) F() (R, bool)                -- no context: static plan; !ok = null
)

type methodInfo struct {
	rt   reflect.Type
	kind MethodKind
}

var (
	methodMu  sync.RWMutex
	methodReg = map[string]methodInfo{}
	envReg    sync.Map // probe name -> *Env (last bound)
)

// StaticPlan decides the outcome of context-free methods (they cannot see the request's plan).
var StaticPlan Plan = &SeedPlan{Seed: 4242, NullPermille: 150, MaxList: 3}

// RegisterMethod is called from the init() of a hand-written model package.
func RegisterMethod(probe, object, field string, rt reflect.Type, kind MethodKind) {
	methodMu.Lock()
	methodReg[probe+"|"+object+"."+field] = methodInfo{rt, kind}
	methodMu.Unlock()
}

func methodOf(probe, object, field string) (methodInfo, bool) {
	methodMu.RLock()
	defer methodMu.RUnlock()
	m, ok := methodReg[probe+"|"+object+"."+field]
	return m, ok
}

func registerEnv(e *Env) { envReg.Store(e.Probe.Name, e) }

// probeBase maps a farm project name to the name its model package registered under
// ("boundfn" and "bound" share one model source).
func probeBase(name string) string {
	methodMu.RLock()
	defer methodMu.RUnlock()
	best := name
	for k := range methodReg {
		p := k[:indexByte(k, '|')]
		if len(p) <= len(name) && name[:len(p)] == p {
			best = p
		}
	}
	return best
}

func indexByte(s string, c byte) int {
	for i := 0; i < len(s); i++ {
		if s[i] == c {
			return i
		}
	}
	return len(s)
}

// Method is the body of every model method of a hand-written probe model.
// It returns the Go value (of the registered result type), ok=false for a null (value, ok)
// result, and the error a failing context method returns.
func Method(ctx context.Context, probe, object, vid, field string, args map[string]any) (reflect.Value, bool, error) {
	v, _ := envReg.Load(probe)
	e, _ := v.(*Env)
	info, ok := methodOf(probeBase(probe), object, field)
	if e == nil || !ok {
		panic("univ: method " + probe + " " + object + "." + field + " not registered / probe not bound")
	}
	plan := StaticPlan
	var run *Run
	if info.kind == MCtxErr && ctx != nil {
		if run = GetRun(ctx); run != nil {
			plan = run.Plan
		} else {
			plan = e.DefaultPlan
		}
	}
	k := Key{Object: object, Vid: vid, Field: field, Args: CanonJSON(args)}
	var ev *Event
	if run != nil {
		ev = run.begin(&Event{Kind: "method", Object: object, Vid: vid, Field: field, Args: k.Args, Path: graphql.GetPath(ctx).String(), G: goid()})
	}
	fin := func(s string) {
		if run != nil {
			run.finish(ev, s)
		}
	}
	if info.kind == MCtxErr {
		switch plan.Fault(k) {
		case FaultError:
			fin("error")
			return reflect.Zero(info.rt), true, &UserError{Msg: ErrText(k)}
		case FaultPanic:
			fin("panic")
			panic(PanicText(k))
		case FaultErrList:
			fin("errors")
			return reflect.Zero(info.rt), true, ErrList(k)
		}
	}
	val := e.Value(plan, k, "", e.fieldTypeOf(object, field), e.nullableView(info))
	fin("value")
	if val.Kind == KNull {
		return reflect.Zero(info.rt), false, nil
	}
	return e.Build(plan, val, info.rt), true, nil
}

// nullableView: a (value, ok) method can express null although its Go result type cannot.
func (e *Env) nullableView(info methodInfo) reflect.Type {
	if info.kind == MVOk && !GoNilable(info.rt) {
		return reflect.PointerTo(info.rt)
	}
	return info.rt
}

func (e *Env) fieldTypeOf(object, field string) *ast.Type {
	return e.Schema.Types[object].Fields.ForName(field).Type
}

// evalMethod is the reference-side view of Method.
func (e *Env) evalMethod(plan Plan, object, vid, field, argsJSON string) (Fault, *Val, bool) {
	info, ok := methodOf(probeBase(e.Probe.Name), object, field)
	if !ok {
		return FaultNone, &Val{Kind: KNull}, false
	}
	p := StaticPlan
	if info.kind == MCtxErr {
		p = plan
	}
	k := Key{Object: object, Vid: vid, Field: field, Args: argsJSON}
	if info.kind == MCtxErr {
		if f := p.Fault(k); f != FaultNone {
			return f, nil, false
		}
	}
	return FaultNone, e.Value(p, k, "", e.fieldTypeOf(object, field), e.nullableView(info)), false
}

// ---------------------------------------------------------------------------------------------
// map-backed objects

var mapAnyType = reflect.TypeOf(map[string]any(nil))

// mapFieldType is the Go type gqlgen expects inside a map-backed object for a field of type t
// (pointer form for nullable scalars, so that null injection is possible).
func (e *Env) mapFieldType(t *ast.Type) reflect.Type {
	if t.Elem != nil {
		return nil
	}
	def := e.Schema.Types[t.NamedType]
	var base reflect.Type
	switch {
	case def.Kind == ast.Object:
		return mapAnyType
	case def.Kind == ast.Enum, def.Name == "String", def.Name == "ID":
		base = reflect.TypeOf("")
	case def.Name == "Int":
		base = reflect.TypeOf(int(0))
	case def.Name == "Float":
		base = reflect.TypeOf(float64(0))
	case def.Name == "Boolean":
		base = reflect.TypeOf(false)
	default:
		return nil
	}
	if t.NonNull {
		return base
	}
	return reflect.PointerTo(base)
}

func (e *Env) isMapObject(object string) bool {
	ot, ok := e.Probe.ObjTypes[object]
	return ok && ot.Kind() == reflect.Map
}

// evalMapField: the value of object(vid).field for a map-backed object.
func (e *Env) evalMapField(plan Plan, object, vid, field string) *Val {
	if field == "vid" {
		return &Val{Kind: KScalar, Scalar: vid}
	}
	fd := e.Schema.Types[object].Fields.ForName(field)
	rt := e.mapFieldType(fd.Type)
	if rt == nil {
		return &Val{Kind: KNull}
	}
	return e.Value(plan, Key{Object: object, Vid: vid, Field: field}, "", fd.Type, rt)
}

// buildMapObject materialises a map-backed object with every field of its definition.
func (e *Env) buildMapObject(plan Plan, v *Val) reflect.Value {
	m := map[string]any{"vid": v.Vid}
	def := e.Schema.Types[v.Type]
	for _, fd := range def.Fields {
		if fd.Name == "vid" {
			continue
		}
		rt := e.mapFieldType(fd.Type)
		if rt == nil {
			continue
		}
		child := e.evalMapField(plan, v.Type, v.Vid, fd.Name)
		if child.Kind == KNull {
			m[fd.Name] = nil
			continue
		}
		gv := e.Build(plan, child, rt)
		for gv.Kind() == reflect.Ptr {
			gv = gv.Elem()
		}
		m[fd.Name] = gv.Interface()
	}
	return reflect.ValueOf(m)
}

// CanFail reports whether object.field is bound to a method that may return an error / panic
// under the run's plan (a fault point besides the resolvers).
func (e *Env) CanFail(object, field string) bool {
	meta, ok := e.Probe.Fields[object+"."+field]
	if !ok || meta.Resolver || !meta.Method {
		return false
	}
	info, ok := methodOf(probeBase(e.Probe.Name), object, field)
	return ok && info.kind == MCtxErr
}
