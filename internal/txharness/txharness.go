// Package txharness is the shared server-side half of the transport checks C09 and C10: hand-written,
// never-panicking resolvers for the generated `tx` probe (verif/work/farm/cur/tx) that log every
// invocation into a per-request log carried in the request context, a counting RecoverFunc, and
// the strict "is this a GraphQL response" judge.
package txharness

import (
	"context"
	"crypto/sha256"
	"encoding/hex"
	"encoding/json"
	"errors"
	"fmt"
	"io"
	"os"
	"runtime/debug"
	"strings"
	"sync"
	"sync/atomic"
	"unicode/utf8"

	"github.com/99designs/gqlgen/graphql"
	"github.com/vektah/gqlparser/v2/gqlerror"

	"verif/internal/sjson"
	"verif/work/farm/cur/tx"
)

// UploadSeen is what a resolver observed for one Upload value it received.
type UploadSeen struct {
	Field       string `json:"field"`
	Index       int    `json:"index"`
	Filename    string `json:"filename"`
	Size        int64  `json:"size"`
	ContentType string `json:"content_type"`
	Sha256      string `json:"sha256"`
	ReadLen     int64  `json:"read_len"`
	Reread      bool   `json:"reread"`
	Spilled     bool   `json:"spilled"` // the reader is an *os.File (spill-to-disk branch)
	Why         string `json:"why,omitempty"`
}

type RecoverInfo struct {
	Value string `json:"value"`
	Stack string `json:"stack"`
}

// ReqLog is the per-request (per websocket connection) observation record.
type ReqLog struct {
	ID      string
	Oneshot bool // subscriptions emit one event and close (for single-response transports)
	// MaxEvents caps the events of `count` (0: 256).
	MaxEvents int

	mu       sync.Mutex
	fields   []string
	uploads  []UploadSeen
	recovers []RecoverInfo
}

func (l *ReqLog) add(f string) {
	l.mu.Lock()
	l.fields = append(l.fields, f)
	l.mu.Unlock()
}

// Fields returns the root fields whose resolvers ran, in invocation order.
func (l *ReqLog) Fields() []string {
	l.mu.Lock()
	defer l.mu.Unlock()
	return append([]string(nil), l.fields...)
}

func (l *ReqLog) Uploads() []UploadSeen {
	l.mu.Lock()
	defer l.mu.Unlock()
	return append([]UploadSeen(nil), l.uploads...)
}

func (l *ReqLog) Recovers() []RecoverInfo {
	l.mu.Lock()
	defer l.mu.Unlock()
	return append([]RecoverInfo(nil), l.recovers...)
}

type ctxKey struct{}

func With(ctx context.Context, l *ReqLog) context.Context { return context.WithValue(ctx, ctxKey{}, l) }

// Orphan receives events of resolvers invoked with a context that carries no request log. gqlgen
// derives every resolver context from the request context, so this staying empty is itself checked.
var Orphan = &ReqLog{ID: "orphan"}

// TotalRecovers counts every RecoverFunc invocation of the process.
var TotalRecovers atomic.Int64

func From(ctx context.Context) *ReqLog {
	if l, ok := ctx.Value(ctxKey{}).(*ReqLog); ok && l != nil {
		return l
	}
	return Orphan
}

// RecoverFunc is installed with handler.Server.SetRecoverFunc. The resolvers of this package never
// panic, so every invocation means gqlgen's own code panicked.
func RecoverFunc(ctx context.Context, err any) error {
	TotalRecovers.Add(1)
	l := From(ctx)
	l.mu.Lock()
	l.recovers = append(l.recovers, RecoverInfo{Value: fmt.Sprint(err), Stack: string(debug.Stack())})
	l.mu.Unlock()
	return gqlerror.Errorf("internal system error")
}

func sp(s string) *string { return &s }

// Stub returns resolvers for the tx probe. None of them panics on any argument value.
func Stub() *tx.Stub {
	s := &tx.Stub{}
	q := &s.QueryResolver
	q.Q1 = func(ctx context.Context) (string, error) { From(ctx).add("q1"); return "q1", nil }
	q.Q2 = func(ctx context.Context) (string, error) { From(ctx).add("q2"); return "q2", nil }
	q.Q3 = func(ctx context.Context) (string, error) { From(ctx).add("q3"); return "q3", nil }
	q.Echo = func(ctx context.Context, v *string) (*string, error) { From(ctx).add("echo"); return v, nil }
	q.Slow = func(ctx context.Context, ms int) (*string, error) { From(ctx).add("slow"); return sp("slow"), nil }
	q.Big = func(ctx context.Context, n int) (string, error) {
		From(ctx).add("big")
		if n < 0 {
			n = 0
		}
		if n > 1<<16 {
			n = 1 << 16
		}
		return strings.Repeat("b", n), nil
	}
	q.Fail = func(ctx context.Context) (*string, error) {
		From(ctx).add("fail")
		return nil, errors.New("user failure")
	}
	q.Nn = func(ctx context.Context) (string, error) { From(ctx).add("nn"); return "nn", nil }
	q.Item = func(ctx context.Context, id string) (*tx.Item, error) {
		From(ctx).add("item")
		return &tx.Item{ID: id, Name: "item-" + id}, nil
	}
	q.Items = func(ctx context.Context, n int) ([]*tx.Item, error) {
		From(ctx).add("items")
		if n < 0 {
			n = 0
		}
		if n > 64 {
			n = 64
		}
		out := make([]*tx.Item, n)
		for i := range out {
			out[i] = &tx.Item{ID: fmt.Sprint(i), Name: fmt.Sprint("item-", i)}
		}
		return out, nil
	}
	it := &s.ItemResolver
	it.Slow = func(ctx context.Context, obj *tx.Item, ms *int) (*string, error) { return sp("slow"), nil }
	it.Sub = func(ctx context.Context, obj *tx.Item) (*tx.Item, error) {
		if obj == nil || len(obj.ID) > 8 {
			return nil, nil
		}
		return &tx.Item{ID: obj.ID + ".s", Name: "sub"}, nil
	}
	it.Subs = func(ctx context.Context, obj *tx.Item, n int) ([]*tx.Item, error) {
		if n < 0 || obj == nil || len(obj.ID) > 8 {
			n = 0
		}
		if n > 8 {
			n = 8
		}
		out := make([]*tx.Item, n)
		for i := range out {
			out[i] = &tx.Item{ID: fmt.Sprint(obj.ID, ".", i), Name: "subs"}
		}
		return out, nil
	}
	m := &s.MutationResolver
	m.M1 = func(ctx context.Context) (string, error) { From(ctx).add("m1"); return "m1", nil }
	m.M2 = func(ctx context.Context) (string, error) { From(ctx).add("m2"); return "m2", nil }
	m.M3 = func(ctx context.Context) (string, error) { From(ctx).add("m3"); return "m3", nil }
	m.Set = func(ctx context.Context, v string) (string, error) { From(ctx).add("set"); return v, nil }
	m.SingleUpload = func(ctx context.Context, file graphql.Upload) (*tx.UploadInfo, error) {
		l := From(ctx)
		l.add("singleUpload")
		return readAll(l, "singleUpload", []*graphql.Upload{&file})[0], nil
	}
	m.MultiUpload = func(ctx context.Context, files []*graphql.Upload) ([]*tx.UploadInfo, error) {
		l := From(ctx)
		l.add("multiUpload")
		return readAll(l, "multiUpload", files), nil
	}
	m.NestedUpload = func(ctx context.Context, req tx.UploadReq) ([]*tx.UploadInfo, error) {
		l := From(ctx)
		l.add("nestedUpload")
		all := append([]*graphql.Upload{&req.File}, req.More...)
		return readAll(l, "nestedUpload", all), nil
	}
	m.OptUpload = func(ctx context.Context, file *graphql.Upload, tag *string) (*string, error) {
		l := From(ctx)
		l.add("optUpload")
		if file == nil {
			return sp("none"), nil
		}
		inf := readAll(l, "optUpload", []*graphql.Upload{file})[0]
		b, _ := json.Marshal(inf)
		return sp(string(b)), nil
	}
	sub := &s.SubscriptionResolver
	sub.S1 = func(ctx context.Context) (<-chan string, error) {
		From(ctx).add("s1")
		ch := make(chan string, 1)
		ch <- "s1"
		close(ch)
		return ch, nil
	}
	sub.Count = func(ctx context.Context, n int, delayUs *int) (<-chan int, error) {
		l := From(ctx)
		l.add("count")
		max := 256
		if l.MaxEvents > 0 {
			max = l.MaxEvents
		}
		if n < 0 {
			n = 0
		}
		if n > max {
			n = max
		}
		ch := make(chan int, n)
		for i := 0; i < n; i++ {
			ch <- i
		}
		close(ch)
		return ch, nil
	}
	sub.Ctl = func(ctx context.Context, id string) (<-chan *tx.Event, error) {
		l := From(ctx)
		l.add("ctl")
		ch := make(chan *tx.Event, 1)
		ch <- &tx.Event{Seq: 0, Payload: &id}
		if l.Oneshot {
			close(ch)
			return ch, nil
		}
		go func() { // stays live until the operation's context ends (stop / close / disconnect)
			<-ctx.Done()
			close(ch)
		}()
		return ch, nil
	}
	return s
}

func printable(s string) string {
	if utf8.ValidString(s) {
		return s
	}
	return "hex:" + hex.EncodeToString([]byte(s))
}

// readAll reads every upload of one resolver call. The readers are consumed round-robin in small
// chunks so that two readers sharing one cursor cannot both deliver their complete content; then
// each is rewound with Seek and read again.
func readAll(l *ReqLog, field string, ups []*graphql.Upload) []*tx.UploadInfo {
	const chunk = 61
	type st struct {
		h    interface{ Sum([]byte) []byte }
		w    io.Writer
		n    int64
		done bool
		why  string
	}
	sts := make([]*st, len(ups))
	for i := range ups {
		h := sha256.New()
		sts[i] = &st{h: h, w: h}
		if ups[i] == nil || ups[i].File == nil {
			sts[i].done = true
			sts[i].why = "nil upload or nil File"
		}
	}
	buf := make([]byte, chunk)
	for live := true; live; {
		live = false
		for i, u := range ups {
			s := sts[i]
			if s.done {
				continue
			}
			n, err := u.File.Read(buf)
			if n > 0 {
				s.w.Write(buf[:n])
				s.n += int64(n)
			}
			if err != nil {
				s.done = true
				if err != io.EOF {
					s.why = "read: " + err.Error()
				}
				continue
			}
			if s.n > 1<<28 {
				s.done = true
				s.why = "reader does not end"
				continue
			}
			live = true
		}
	}
	out := make([]*tx.UploadInfo, len(ups))
	for i, u := range ups {
		s := sts[i]
		sum := hex.EncodeToString(s.h.Sum(nil))
		seen := UploadSeen{Field: field, Index: i, Sha256: sum, ReadLen: s.n, Why: s.why}
		info := &tx.UploadInfo{Sha256: sum, Size: int(s.n)}
		if u != nil {
			seen.Filename, seen.Size, seen.ContentType = u.Filename, u.Size, u.ContentType
			_, seen.Spilled = u.File.(*os.File)
			// the echo goes through gqlgen's string marshaler; bytes that are not UTF-8 are sent hex
			// encoded so that this harness never depends on how invalid UTF-8 is serialised (C08)
			info.Filename, info.ContentType, info.Size = printable(u.Filename), printable(u.ContentType), int(u.Size)
		}
		if u != nil && u.File != nil && s.why == "" {
			ok := true
			if end, err := u.File.Seek(0, io.SeekEnd); err != nil || end != s.n {
				ok = false
				seen.Why = fmt.Sprintf("Seek(0,End)=%d,%v want %d", end, err, s.n)
			}
			if pos, err := u.File.Seek(0, io.SeekStart); err != nil || pos != 0 {
				ok = false
				seen.Why = fmt.Sprintf("Seek(0,Start)=%d,%v", pos, err)
			}
			h2 := sha256.New()
			n2, err := io.Copy(h2, u.File)
			if err != nil || n2 != s.n || hex.EncodeToString(h2.Sum(nil)) != sum {
				ok = false
				seen.Why = fmt.Sprintf("re-read after Seek: %d bytes, err %v, hash equal %v", n2, err, hex.EncodeToString(h2.Sum(nil)) == sum)
			}
			// io.Seeker: seeking to a position before the start is an error, whatever whence is used
			// and whichever reader (in memory, spilled to disk) backs the upload; the reader stays usable
			if pos, err := u.File.Seek(-(s.n + 8), io.SeekEnd); err == nil {
				ok = false
				seen.Why = fmt.Sprintf("Seek(%d,End) on a %d byte upload succeeded (position %d)", -(s.n + 8), s.n, pos)
			}
			if _, err := u.File.Seek(0, io.SeekStart); err == nil {
				if pos, err := u.File.Seek(-3, io.SeekCurrent); err == nil {
					ok = false
					seen.Why = fmt.Sprintf("Seek(-3,Current) at offset 0 succeeded (position %d)", pos)
				}
			}
			if _, err := u.File.Seek(0, io.SeekStart); err != nil {
				ok = false
				seen.Why = "Seek(0,Start) after a refused seek: " + err.Error()
			} else if n3, err := io.Copy(io.Discard, u.File); err != nil || n3 != s.n {
				ok = false
				seen.Why = fmt.Sprintf("read after a refused seek: %d bytes, %v", n3, err)
			}
			seen.Reread, info.Reread = ok, ok
		}
		l.mu.Lock()
		l.uploads = append(l.uploads, seen)
		l.mu.Unlock()
		out[i] = info
	}
	return out
}

// GraphQLBody judges a response body: it must be one strict-JSON object (RFC 8259, valid UTF-8, no
// duplicate members) with a `data` and/or an `errors` member; `errors`, when present, is a non-empty
// array of objects each having a string `message`.
func GraphQLBody(b []byte) (v *sjson.Value, hasData, hasErrors bool, err error) {
	v, dup, err := sjson.ParseDup(b)
	if err != nil {
		return nil, false, false, fmt.Errorf("not valid JSON: %v", err)
	}
	if dup > 0 {
		return v, false, false, fmt.Errorf("duplicate object members in response")
	}
	if v.Kind != sjson.Object {
		return v, false, false, fmt.Errorf("response is not a JSON object")
	}
	d := v.Get("data")
	e := v.Get("errors")
	hasData = d != nil && d.Kind != sjson.Null
	if e != nil {
		if e.Kind != sjson.Array || len(e.Arr) == 0 {
			return v, hasData, false, fmt.Errorf("`errors` is not a non-empty array")
		}
		for _, x := range e.Arr {
			if x.Kind != sjson.Object || x.Get("message") == nil || x.Get("message").Kind != sjson.String {
				return v, hasData, false, fmt.Errorf("an `errors` element is not an object with a string message")
			}
		}
		hasErrors = true
	}
	if d == nil && e == nil {
		return v, false, false, fmt.Errorf("response object has neither `data` nor `errors`")
	}
	if !hasData && !hasErrors {
		return v, false, false, fmt.Errorf("response has null data and no errors")
	}
	return v, hasData, hasErrors, nil
}
