// Package drive executes operations against a bound probe through gqlgen's real executor
// (graphql/executor) and normalises what came back for comparison with the reference.
package drive

import (
	"context"
	"encoding/json"
	"fmt"
	"sort"
	"strings"
	"sync/atomic"
	"time"

	"github.com/99designs/gqlgen/graphql"
	"github.com/99designs/gqlgen/graphql/executor"
	"github.com/vektah/gqlparser/v2/ast"
	"github.com/vektah/gqlparser/v2/gqlerror"

	"verif/internal/ref"
	"verif/internal/sjson"
	"verif/internal/univ"
)

type Server struct {
	Env      *univ.Env
	Exec     *executor.Executor
	Recovers atomic.Int64
	// Presenter: a custom error presenter is installed (it marks every error it presents)
	Presenter bool
}

const presentedMark = "verif_presented"

// WithPresenter installs an error presenter that marks every error it is given; a response error
// without the mark did not pass the configured presenter (Real.Unpresented counts them).
func (s *Server) WithPresenter() *Server {
	s.Presenter = true
	s.Exec.SetErrorPresenter(func(ctx context.Context, err error) *gqlerror.Error {
		e := graphql.DefaultErrorPresenter(ctx, err)
		if e.Extensions == nil {
			e.Extensions = map[string]any{}
		}
		e.Extensions[presentedMark] = true
		return e
	})
	return s
}

func NewServer(env *univ.Env) *Server {
	s := &Server{Env: env, Exec: executor.New(env.ES)}
	s.Exec.SetRecoverFunc(func(ctx context.Context, r any) error {
		s.Recovers.Add(1)
		return fmt.Errorf("PANIC:%v", r)
	})
	return s
}

// NewServerWithInterceptor adds a field interceptor that, under a plan with FaultInInterceptor,
// raises the fault of the resolver it wraps itself (error returned / panic) once the resolver has
// returned: the failure of a field interceptor at that field.
func NewServerWithInterceptor(env *univ.Env) *Server {
	s := NewServer(env)
	s.Exec.AroundFields(func(ctx context.Context, next graphql.Resolver) (any, error) {
		if !univ.InterceptorMode(ctx) {
			return next(ctx)
		}
		pr := &univ.IcProbe{}
		res, err := next(univ.WithIcProbe(ctx, pr))
		switch pr.Fault {
		case univ.FaultError:
			return nil, &univ.UserError{Msg: univ.ErrText(pr.K)}
		case univ.FaultPanic:
			panic(univ.PanicText(pr.K))
		case univ.FaultErrList:
			return nil, univ.ErrList(pr.K)
		}
		return res, err
	})
	return s
}

type Payload struct {
	Raw     json.RawMessage
	Data    *sjson.Value // nil when the data member is absent
	Errors  []ref.ErrExp
	Path    []any
	Label   string
	HasNext *bool
	ParseOK bool
	// Extensions: number of entries of the payload's extensions member
	Extensions int
}

type Real struct {
	RequestErrors []string // non-empty: refused before execution
	Payloads      []*Payload
	Invocations   []string
	DirCalls      []string
	Events        []univ.Event
	Unpresented   []string // errors that lack the presenter's mark (only with WithPresenter)
	TimedOut      bool
	Doc           *ast.QueryDocument
}

// Classify maps an error message to the class vocabulary of the reference executor.
func Classify(msg string) string {
	switch {
	case strings.HasPrefix(msg, "E!"):
		return "resolver:" + msg
	case strings.HasPrefix(msg, "D!"):
		return "directive:" + msg
	case strings.HasPrefix(msg, "PANIC:"):
		return "panic:" + strings.TrimPrefix(msg, "PANIC:")
	case msg == "must not be null", msg == "the requested element is null which the schema does not allow":
		return "nonnull"
	case msg == "unexpected type <nil> from directive, should be graphql.Marshaler":
		return "directive-nil"
	case msg == "cannot marshal infinite no NaN float values":
		return "nonfinite"
	}
	return "other:" + msg
}

func pathString(p ast.Path) string { return p.String() }

func convErrors(l gqlerror.List) []ref.ErrExp {
	var out []ref.ErrExp
	for _, e := range l {
		out = append(out, ref.ErrExp{Path: pathString(e.Path), Class: Classify(e.Message)})
	}
	sort.Slice(out, func(i, j int) bool { return out[i].String() < out[j].String() })
	return out
}

// PayloadOf converts one response (as handed out by the response function, or as decoded from a
// transport's frame) into the form the oracles read.
func PayloadOf(resp *graphql.Response) *Payload {
	p := &Payload{Label: resp.Label, HasNext: resp.HasNext, Errors: convErrors(resp.Errors), Extensions: len(resp.Extensions)}
	for _, e := range resp.Path {
		switch v := e.(type) {
		case ast.PathName:
			p.Path = append(p.Path, string(v))
		case ast.PathIndex:
			p.Path = append(p.Path, int(v))
		}
	}
	p.Raw = append(json.RawMessage{}, resp.Data...)
	if len(resp.Data) > 0 {
		v, err := sjson.Parse(resp.Data)
		if err == nil {
			p.Data, p.ParseOK = v, true
		}
	} else {
		p.ParseOK = true
	}
	return p
}

// Run executes one operation; maxPayloads bounds the number of response-function calls.
func (s *Server) Run(ctx context.Context, run *univ.Run, query, opName string, vars map[string]any, timeout time.Duration) *Real {
	out := &Real{}
	ctx = univ.WithRun(ctx, run)
	ctx = graphql.StartOperationTrace(ctx)
	// a request without variables arrives either with no variables member at all (nil map) or with
	// an empty object: both must behave alike; which one is used depends on the query text only
	if len(vars) == 0 {
		if univ.H("novars", query)%2 == 0 {
			vars = nil
		} else {
			vars = map[string]any{}
		}
	}
	params := &graphql.RawParams{Query: query, OperationName: opName, Variables: vars}
	opCtx, errs := s.Exec.CreateOperationContext(ctx, params)
	if len(errs) > 0 {
		for _, e := range errs {
			out.RequestErrors = append(out.RequestErrors, e.Message)
		}
		return out
	}
	out.Doc = opCtx.Doc
	done := make(chan struct{})
	go func() {
		defer close(done)
		// what every transport does around the response function (handler.Server.ServeHTTP, the
		// websocket operation goroutine): a panic that no field recovered - an operation directive's -
		// goes through the recover hook and the presenter and is answered as the only error
		defer func() {
			if r := recover(); r != nil {
				gqlErr, _ := s.Exec.PresentRecoveredError(ctx, r).(*gqlerror.Error)
				// (graphql.Response always serialises its data member: null here)
				resp := &graphql.Response{Errors: gqlerror.List{gqlErr}, Data: json.RawMessage("null")}
				out.Payloads = append(out.Payloads, PayloadOf(resp))
			}
		}()
		responses, rctx := s.Exec.DispatchOperation(ctx, opCtx)
		for i := 0; i < 10000; i++ {
			resp := responses(rctx)
			if resp == nil {
				return
			}
			if s.Presenter {
				for _, e := range resp.Errors {
					if m, _ := e.Extensions[presentedMark].(bool); !m {
						out.Unpresented = append(out.Unpresented, pathString(e.Path)+": "+e.Message)
					}
				}
			}
			out.Payloads = append(out.Payloads, PayloadOf(resp))
		}
	}()
	select {
	case <-done:
	case <-time.After(timeout):
		out.TimedOut = true
		return out
	}
	out.Events = run.Events()
	for _, e := range out.Events {
		switch e.Kind {
		case "resolver":
			k := univ.Key{Object: e.Object, Vid: e.Vid, Field: e.Field, Args: e.Args}
			out.Invocations = append(out.Invocations, k.String())
		case "directive":
			out.DirCalls = append(out.DirCalls, e.Path+"|"+e.Name)
		}
	}
	sort.Strings(out.Invocations)
	sort.Strings(out.DirCalls)
	return out
}

// DiffErrors compares two sorted error multisets; "" when equal.
func DiffErrors(want, got []ref.ErrExp) string {
	a := make([]string, len(want))
	for i, e := range want {
		a[i] = e.String()
	}
	b := make([]string, len(got))
	for i, e := range got {
		b[i] = e.String()
	}
	sort.Strings(a)
	sort.Strings(b)
	return DiffStrings(a, b)
}

// DiffStrings compares two sorted multisets of strings.
func DiffStrings(a, b []string) string {
	i, j := 0, 0
	var missing, extra []string
	for i < len(a) || j < len(b) {
		switch {
		case j >= len(b) || (i < len(a) && a[i] < b[j]):
			missing = append(missing, a[i])
			i++
		case i >= len(a) || b[j] < a[i]:
			extra = append(extra, b[j])
			j++
		default:
			i++
			j++
		}
	}
	if len(missing) == 0 && len(extra) == 0 {
		return ""
	}
	return fmt.Sprintf("expected-but-absent=%q unexpected=%q", missing, extra)
}
