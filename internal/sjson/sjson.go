// Package sjson is a strict RFC 8259 + UTF-8 parser written for the verification harness. It does
// not use encoding/json: it is the independent judge of "is this a valid JSON text" (C08, C09,
// C10, C12) and it preserves object member order (needed for response-key order in C01/C13).
package sjson

import (
	"fmt"
	"math"
	"sort"
	"strconv"
	"strings"
	"unicode/utf8"
)

type Kind int

const (
	Null Kind = iota
	Bool
	Number
	String
	Array
	Object
)

type Member struct {
	Key string
	Val *Value
}

type Value struct {
	Kind    Kind
	B       bool
	Num     string // literal text of a number
	Str     string
	Arr     []*Value
	Members []Member
}

type parser struct {
	s   []byte
	pos int
	// DupKeys counts duplicate member names (legal JSON, but never legal in a GraphQL response)
	dup int
}

// Parse validates and parses a complete JSON text. Any deviation from RFC 8259 is an error:
// invalid UTF-8, raw control characters in strings, bad escapes, lone surrogates in \u escapes,
// leading zeros, trailing commas, trailing garbage.
func Parse(b []byte) (*Value, error) {
	v, _, err := ParseDup(b)
	return v, err
}

// ParseDup also reports the number of duplicate object member names seen.
func ParseDup(b []byte) (*Value, int, error) {
	if !utf8.Valid(b) {
		// find offset for the message
		off := 0
		for off < len(b) {
			r, n := utf8.DecodeRune(b[off:])
			if r == utf8.RuneError && n == 1 {
				break
			}
			off += n
		}
		return nil, 0, fmt.Errorf("invalid UTF-8 at byte %d", off)
	}
	p := &parser{s: b}
	p.ws()
	v, err := p.value(0)
	if err != nil {
		return nil, 0, err
	}
	p.ws()
	if p.pos != len(p.s) {
		return nil, 0, fmt.Errorf("trailing data at byte %d", p.pos)
	}
	return v, p.dup, nil
}

func (p *parser) ws() {
	for p.pos < len(p.s) {
		switch p.s[p.pos] {
		case ' ', '\t', '\n', '\r':
			p.pos++
		default:
			return
		}
	}
}

func (p *parser) errf(f string, a ...any) error {
	return fmt.Errorf("at byte %d: %s", p.pos, fmt.Sprintf(f, a...))
}

func (p *parser) value(depth int) (*Value, error) {
	if depth > 512 {
		return nil, p.errf("nesting too deep")
	}
	if p.pos >= len(p.s) {
		return nil, p.errf("unexpected end")
	}
	switch c := p.s[p.pos]; {
	case c == '{':
		p.pos++
		v := &Value{Kind: Object}
		p.ws()
		if p.pos < len(p.s) && p.s[p.pos] == '}' {
			p.pos++
			return v, nil
		}
		seen := map[string]bool{}
		for {
			p.ws()
			if p.pos >= len(p.s) || p.s[p.pos] != '"' {
				return nil, p.errf("expected member name")
			}
			k, err := p.str()
			if err != nil {
				return nil, err
			}
			if seen[k] {
				p.dup++
			}
			seen[k] = true
			p.ws()
			if p.pos >= len(p.s) || p.s[p.pos] != ':' {
				return nil, p.errf("expected ':'")
			}
			p.pos++
			p.ws()
			mv, err := p.value(depth + 1)
			if err != nil {
				return nil, err
			}
			v.Members = append(v.Members, Member{k, mv})
			p.ws()
			if p.pos >= len(p.s) {
				return nil, p.errf("unexpected end in object")
			}
			if p.s[p.pos] == ',' {
				p.pos++
				continue
			}
			if p.s[p.pos] == '}' {
				p.pos++
				return v, nil
			}
			return nil, p.errf("expected ',' or '}'")
		}
	case c == '[':
		p.pos++
		v := &Value{Kind: Array, Arr: []*Value{}}
		p.ws()
		if p.pos < len(p.s) && p.s[p.pos] == ']' {
			p.pos++
			return v, nil
		}
		for {
			p.ws()
			ev, err := p.value(depth + 1)
			if err != nil {
				return nil, err
			}
			v.Arr = append(v.Arr, ev)
			p.ws()
			if p.pos >= len(p.s) {
				return nil, p.errf("unexpected end in array")
			}
			if p.s[p.pos] == ',' {
				p.pos++
				continue
			}
			if p.s[p.pos] == ']' {
				p.pos++
				return v, nil
			}
			return nil, p.errf("expected ',' or ']'")
		}
	case c == '"':
		s, err := p.str()
		if err != nil {
			return nil, err
		}
		return &Value{Kind: String, Str: s}, nil
	case c == 't':
		return p.lit("true", &Value{Kind: Bool, B: true})
	case c == 'f':
		return p.lit("false", &Value{Kind: Bool, B: false})
	case c == 'n':
		return p.lit("null", &Value{Kind: Null})
	case c == '-' || (c >= '0' && c <= '9'):
		return p.num()
	default:
		return nil, p.errf("unexpected byte %q", c)
	}
}

func (p *parser) lit(w string, v *Value) (*Value, error) {
	if strings.HasPrefix(string(p.s[p.pos:min(len(p.s), p.pos+len(w))]), w) {
		p.pos += len(w)
		return v, nil
	}
	return nil, p.errf("bad literal")
}

func (p *parser) num() (*Value, error) {
	start := p.pos
	if p.s[p.pos] == '-' {
		p.pos++
	}
	if p.pos >= len(p.s) {
		return nil, p.errf("bad number")
	}
	if p.s[p.pos] == '0' {
		p.pos++
	} else if p.s[p.pos] >= '1' && p.s[p.pos] <= '9' {
		for p.pos < len(p.s) && p.s[p.pos] >= '0' && p.s[p.pos] <= '9' {
			p.pos++
		}
	} else {
		return nil, p.errf("bad number")
	}
	if p.pos < len(p.s) && p.s[p.pos] == '.' {
		p.pos++
		n := 0
		for p.pos < len(p.s) && p.s[p.pos] >= '0' && p.s[p.pos] <= '9' {
			p.pos++
			n++
		}
		if n == 0 {
			return nil, p.errf("bad fraction")
		}
	}
	if p.pos < len(p.s) && (p.s[p.pos] == 'e' || p.s[p.pos] == 'E') {
		p.pos++
		if p.pos < len(p.s) && (p.s[p.pos] == '+' || p.s[p.pos] == '-') {
			p.pos++
		}
		n := 0
		for p.pos < len(p.s) && p.s[p.pos] >= '0' && p.s[p.pos] <= '9' {
			p.pos++
			n++
		}
		if n == 0 {
			return nil, p.errf("bad exponent")
		}
	}
	return &Value{Kind: Number, Num: string(p.s[start:p.pos])}, nil
}

func hex4(b []byte) (rune, bool) {
	if len(b) < 4 {
		return 0, false
	}
	var r rune
	for _, c := range b[:4] {
		r <<= 4
		switch {
		case c >= '0' && c <= '9':
			r |= rune(c - '0')
		case c >= 'a' && c <= 'f':
			r |= rune(c-'a') + 10
		case c >= 'A' && c <= 'F':
			r |= rune(c-'A') + 10
		default:
			return 0, false
		}
	}
	return r, true
}

func (p *parser) str() (string, error) {
	p.pos++ // opening quote
	var sb strings.Builder
	for {
		if p.pos >= len(p.s) {
			return "", p.errf("unterminated string")
		}
		c := p.s[p.pos]
		switch {
		case c == '"':
			p.pos++
			return sb.String(), nil
		case c < 0x20:
			return "", p.errf("raw control character 0x%02x in string", c)
		case c == '\\':
			p.pos++
			if p.pos >= len(p.s) {
				return "", p.errf("bad escape")
			}
			switch e := p.s[p.pos]; e {
			case '"', '\\', '/':
				sb.WriteByte(e)
				p.pos++
			case 'b':
				sb.WriteByte('\b')
				p.pos++
			case 'f':
				sb.WriteByte('\f')
				p.pos++
			case 'n':
				sb.WriteByte('\n')
				p.pos++
			case 'r':
				sb.WriteByte('\r')
				p.pos++
			case 't':
				sb.WriteByte('\t')
				p.pos++
			case 'u':
				r, ok := hex4(p.s[p.pos+1:])
				if !ok {
					return "", p.errf("bad \\u escape")
				}
				p.pos += 5
				if r >= 0xD800 && r <= 0xDBFF {
					if p.pos+1 < len(p.s) && p.s[p.pos] == '\\' && p.s[p.pos+1] == 'u' {
						r2, ok := hex4(p.s[p.pos+2:])
						if ok && r2 >= 0xDC00 && r2 <= 0xDFFF {
							p.pos += 6
							sb.WriteRune(0x10000 + (r-0xD800)<<10 + (r2 - 0xDC00))
							continue
						}
					}
					return "", p.errf("lone high surrogate in \\u escape")
				}
				if r >= 0xDC00 && r <= 0xDFFF {
					return "", p.errf("lone low surrogate in \\u escape")
				}
				sb.WriteRune(r)
			default:
				return "", p.errf("bad escape \\%c", e)
			}
		default:
			// input already known to be valid UTF-8
			_, n := utf8.DecodeRune(p.s[p.pos:])
			sb.Write(p.s[p.pos : p.pos+n])
			p.pos += n
		}
	}
}

// Get returns the member of an object (nil if absent or v is not an object).
func (v *Value) Get(key string) *Value {
	if v == nil || v.Kind != Object {
		return nil
	}
	for _, m := range v.Members {
		if m.Key == key {
			return m.Val
		}
	}
	return nil
}

// Float returns the numeric value of a Number.
func (v *Value) Float() float64 {
	f, _ := strconv.ParseFloat(v.Num, 64)
	return f
}

// NumEqual compares two JSON number literals by mathematical value (integers exactly).
func NumEqual(a, b string) bool {
	if a == b {
		return true
	}
	ia, ea := strconv.ParseInt(a, 10, 64)
	ib, eb := strconv.ParseInt(b, 10, 64)
	if ea == nil && eb == nil {
		return ia == ib
	}
	ua, ea := strconv.ParseUint(a, 10, 64)
	ub, eb := strconv.ParseUint(b, 10, 64)
	if ea == nil && eb == nil {
		return ua == ub
	}
	fa, ea := strconv.ParseFloat(a, 64)
	fb, eb := strconv.ParseFloat(b, 64)
	if ea != nil || eb != nil {
		return false
	}
	return fa == fb || (math.IsNaN(fa) && math.IsNaN(fb))
}

// Equal compares two values; ordered=true also requires identical member order.
func Equal(a, b *Value, ordered bool) bool {
	return Diff(a, b, ordered, "") == ""
}

// Diff returns "" if equal, else a description of the first difference.
func Diff(a, b *Value, ordered bool, path string) string {
	if a == nil || b == nil {
		if a == b {
			return ""
		}
		return fmt.Sprintf("%s: one side missing", path)
	}
	if a.Kind != b.Kind {
		return fmt.Sprintf("%s: kind %s vs %s", path, a.Render(), b.Render())
	}
	switch a.Kind {
	case Bool:
		if a.B != b.B {
			return fmt.Sprintf("%s: %v vs %v", path, a.B, b.B)
		}
	case Number:
		if !NumEqual(a.Num, b.Num) {
			return fmt.Sprintf("%s: %s vs %s", path, a.Num, b.Num)
		}
	case String:
		if a.Str != b.Str {
			return fmt.Sprintf("%s: %q vs %q", path, a.Str, b.Str)
		}
	case Array:
		if len(a.Arr) != len(b.Arr) {
			return fmt.Sprintf("%s: array length %d vs %d", path, len(a.Arr), len(b.Arr))
		}
		for i := range a.Arr {
			if d := Diff(a.Arr[i], b.Arr[i], ordered, path+"/"+strconv.Itoa(i)); d != "" {
				return d
			}
		}
	case Object:
		if len(a.Members) != len(b.Members) {
			return fmt.Sprintf("%s: member count %d vs %d (%s vs %s)", path, len(a.Members), len(b.Members), a.keys(), b.keys())
		}
		if ordered {
			for i := range a.Members {
				if a.Members[i].Key != b.Members[i].Key {
					return fmt.Sprintf("%s: member order %s vs %s", path, a.keys(), b.keys())
				}
				if d := Diff(a.Members[i].Val, b.Members[i].Val, ordered, path+"/"+a.Members[i].Key); d != "" {
					return d
				}
			}
		} else {
			for _, m := range a.Members {
				o := b.Get(m.Key)
				if o == nil {
					return fmt.Sprintf("%s: member %q missing on one side", path, m.Key)
				}
				if d := Diff(m.Val, o, ordered, path+"/"+m.Key); d != "" {
					return d
				}
			}
		}
	}
	return ""
}

func (v *Value) keys() string {
	ks := make([]string, len(v.Members))
	for i, m := range v.Members {
		ks[i] = m.Key
	}
	return "[" + strings.Join(ks, ",") + "]"
}

// Render prints a compact canonical form (member order preserved).
func (v *Value) Render() string {
	var sb strings.Builder
	v.render(&sb, false)
	return sb.String()
}

// RenderSorted prints with object members sorted by key.
func (v *Value) RenderSorted() string {
	var sb strings.Builder
	v.render(&sb, true)
	return sb.String()
}

func (v *Value) render(sb *strings.Builder, sorted bool) {
	if v == nil {
		sb.WriteString("<absent>")
		return
	}
	switch v.Kind {
	case Null:
		sb.WriteString("null")
	case Bool:
		sb.WriteString(strconv.FormatBool(v.B))
	case Number:
		sb.WriteString(v.Num)
	case String:
		sb.WriteString(strconv.Quote(v.Str))
	case Array:
		sb.WriteByte('[')
		for i, e := range v.Arr {
			if i > 0 {
				sb.WriteByte(',')
			}
			e.render(sb, sorted)
		}
		sb.WriteByte(']')
	case Object:
		ms := v.Members
		if sorted {
			ms = append([]Member(nil), ms...)
			sort.SliceStable(ms, func(i, j int) bool { return ms[i].Key < ms[j].Key })
		}
		sb.WriteByte('{')
		for i, m := range ms {
			if i > 0 {
				sb.WriteByte(',')
			}
			sb.WriteString(strconv.Quote(m.Key))
			sb.WriteByte(':')
			m.Val.render(sb, sorted)
		}
		sb.WriteByte('}')
	}
}

// Constructors used by reference models.
func N() *Value            { return &Value{Kind: Null} }
func S(s string) *Value    { return &Value{Kind: String, Str: s} }
func Bo(b bool) *Value     { return &Value{Kind: Bool, B: b} }
func I(i int64) *Value     { return &Value{Kind: Number, Num: strconv.FormatInt(i, 10)} }
func F(f float64) *Value   { return &Value{Kind: Number, Num: strconv.FormatFloat(f, 'g', -1, 64)} }
func A(e ...*Value) *Value { return &Value{Kind: Array, Arr: append([]*Value{}, e...)} }
func O() *Value            { return &Value{Kind: Object} }
func (v *Value) Set(k string, x *Value) *Value {
	v.Members = append(v.Members, Member{k, x})
	return v
}
