// Package schemagen is a seeded random GraphQL SDL grammar used as generator input by the
// C17 (generation succeeds and compiles) and C18 (generation is deterministic) checks.
//
// Everything is a pure function of Opts (including Opts.Seed): no wall clock, no map iteration
// in any emitting path. The grammar stays inside what gqlgen documents (docs/content) or
// explicitly handles (codegen/templates/templates.go, codegen/testserver fixtures); the limits
// are listed in Assumptions.
package schemagen

import (
	"fmt"
	"math/rand"
	"sort"
	"strings"
)

// Assumptions lists where the grammar deliberately stays inside the documented feature set.
var Assumptions = []string{
	"field names inside one type, argument names inside one field and directive argument names never normalise (case-folded, underscores removed) to the same Go identifier: gqlgen documents collision handling only for enum constants and type (model) names; the fixture for same-type field collisions needs a hand-written @goField(name:)",
	"no name whose first character after leading underscores is a digit (ToGo would yield a Go identifier starting with a digit); `_` alone is used only as an argument name (the one place templates.go sanitises it)",
	"argument names never equal the fixed parameter names of generated signatures (ctx, obj, data, next, rctx, fc, ec) and never equal a package name the resolver stub body uses (fmt, context)",
	"type names never equal identifiers the executor package itself declares (Config, ResolverRoot, DirectiveRoot, ComplexityRoot, Stub, Resolver, <Type>Resolver, All<Enum>, Is<Interface>) and field names never start with get/is followed by another field's name (getter collisions are not in the documented list)",
	"custom directives are applied at OBJECT, FIELD_DEFINITION, ARGUMENT_DEFINITION, INPUT_FIELD_DEFINITION, INPUT_OBJECT, ENUM, ENUM_VALUE, INTERFACE, UNION, SCALAR; executable locations (QUERY, MUTATION, SUBSCRIPTION, FIELD, FRAGMENT_*, VARIABLE_DEFINITION) are declared only, as SDL cannot apply them",
	"skip_mod_tidy is always true (go mod tidy would rewrite the harness module)",
	"schema globs are `*.graphql`, `<dir>/*.graphql` or `<dir>/**/*.graphql` as in docs/content/config.md (a glob starting with `**` makes the generator walk the empty path and fail: outside the documented forms)",
	"integer literals fit in int64 (gqlparser's ast.Value.Value parses Int literals with ParseInt 64)",
	"@goExtraField types are builtin basic types, qualified named types, pointers and slices of those (the documented forms; `map[...]` makes modelgen panic and is not documented)",
	"Upload appears only in input positions; default values are never given for Upload",
}

// Ref is a GraphQL type reference.
type Ref struct {
	Name string
	NN   bool
	Of   *Ref // list element when non-nil
}

func (r *Ref) String() string {
	s := r.Name
	if r.Of != nil {
		s = "[" + r.Of.String() + "]"
	}
	if r.NN {
		s += "!"
	}
	return s
}

func (r *Ref) Base() string {
	for r.Of != nil {
		r = r.Of
	}
	return r.Name
}

func (r *Ref) clone() *Ref {
	if r == nil {
		return nil
	}
	c := *r
	c.Of = r.Of.clone()
	return &c
}

type Arg struct {
	Name string
	T    *Ref
	Def  string
	Dirs []string
	Desc string
}

type Field struct {
	Name string
	T    *Ref
	Args []*Arg
	Dirs []string
	Desc string
	Def  string // input field default
	ext  int    // extension chunk index (0 = base definition)
}

type EnumVal struct {
	Name string
	Dirs []string
	Desc string
	ext  int
}

type Def struct {
	Kind    string // scalar | enum | input | interface | object | union
	Name    string
	Fields  []*Field
	Impl    []string
	Members []string
	Values  []*EnumVal
	Dirs    []string
	Desc    string
	Root    string // query | mutation | subscription
	Bound   bool   // a Go type for it is written into the hand-written autobind package
	file    int
	memExt  int // number of union members moved to an extension
	extFile []int
}

type Directive struct {
	Name       string
	Args       []*Arg
	Locs       []string
	Repeatable bool
	Desc       string
	file       int
}

type File struct {
	Name string
	Text string
}

// ScalarBinding is one entry for the `models:` section of gqlgen.yml.
type ScalarBinding struct {
	Name   string
	Models []string
	Inline bool // bound through @goModel in the schema instead of the models: section
}

type Opts struct {
	Seed   int64
	Types  int    // approximate number of object types (interfaces, inputs, enums, unions scale along)
	Files  int    // number of schema files (>=1)
	Dir    string // sub-directory for schema files ("" = project root)
	Stress bool   // identifier stress from the names list
	// AcyclicValueStructs: non-null object-typed fields only point to earlier objects (needed
	// when struct_fields_always_pointers is false: Go cannot embed structs recursively by value).
	AcyclicValueStructs bool
	// BoundPkg is the import path of the hand-written autobind package ("" = none).
	BoundPkg     string
	BoundPkgName string
	// Avoid switches workload classes off. BuildProject sets the classes of the known findings
	// (see KnownClasses) for every general project, so that general projects never contain them.
	Avoid map[string]bool
	// Inject adds the minimal witness of one known-finding class (dedicated projects only).
	Inject string
	// FirstFileDir, when set, is the directory of the FIRST schema file (the others stay in Dir):
	// schema sources inside and outside the exec directory in one project
	FirstFileDir string
}

type Schema struct {
	Files      []File
	Scalars    []ScalarBinding
	BoundGo    string            // source of the hand-written package ("" when none)
	EnumBind   map[string]string // yaml snippet per enum bound through enum_values
	Feat       map[string]int    // grammar features emitted
	Stress     map[string]int    // identifier-stress classes emitted
	Defs       []*Def
	Directives []*Directive
	TypeCount  int
	RootNames  [3]string
	MapInputs  []string // input objects bound to map[string]interface{} (docs/content/recipes: changesets)
}

var goKeywords = []string{"break", "default", "func", "interface", "select", "case", "defer", "go", "map", "struct", "chan", "else", "goto", "package", "switch", "const", "fallthrough", "if", "range", "type", "continue", "for", "import", "return", "var"}

var predeclared = []string{"bool", "byte", "complex64", "complex128", "error", "float32", "float64", "int", "int8", "int16", "int32", "int64", "rune", "string", "uint", "uint8", "uint16", "uint32", "uint64", "uintptr", "any", "comparable", "true", "false", "iota", "nil", "append", "cap", "clear", "close", "complex", "copy", "delete", "imag", "len", "make", "max", "min", "new", "panic", "print", "println", "real", "recover"}

var initialisms = []string{"id", "url", "http", "uuid", "api", "json", "userId", "htmlUrl", "ID", "URL", "Id", "httpURL", "userID", "apiKey", "xmlHttpRequest", "ip", "ipAddress", "IDs", "urls", "uri", "sqlQuery", "cpuUsage", "tlsCert", "utf8Name", "HTTPSProxy", "ttl", "uid", "vmId"}

var underscored = []string{"_lead", "trail_", "dbl__mid", "_both_", "snake_case_name", "a_b_c", "Mixed_Case", "UPPER_CASE", "x_", "_y", "tail__", "mid_1", "v_1_2"}

var plainWords = []string{"title", "count", "owner", "price", "label", "status", "parent", "child", "total", "amount", "name", "body", "score", "level", "node", "edge", "cursor", "limit", "offset", "filter", "order", "first", "last", "after", "before", "query", "text", "value", "kind", "flag", "note", "tag", "size", "width", "height", "color", "shape", "email", "phone", "street", "city", "zip", "country", "created", "updated", "deleted", "active", "visible", "rating", "weight"}

var typeWords = []string{"User", "Post", "Comment", "Order", "Item", "Product", "Invoice", "Account", "Team", "Project", "Task", "Event", "Message", "Thread", "Group", "Role", "Token", "Session", "Device", "Sensor", "Reading", "Page", "Edge", "Node", "Shop", "Cart", "Review", "Photo", "Album", "Track", "Artist", "Venue", "Ticket", "Route", "Stop", "Trip", "Plan", "Price", "Offer", "Coupon"}

type gen struct {
	r                                      *rand.Rand
	o                                      Opts
	s                                      *Schema
	used                                   map[string]bool // normalised type-level names
	byN                                    map[string]*Def
	scal                                   []scalarSpec // chosen custom scalars
	enums, inputs, ifaces, objects, unions []*Def
	dirs                                   []*Directive
	nameSeq                                int
	listShapes                             map[string]bool
}

type scalarSpec struct {
	name    string
	models  []string
	in, out bool
	lit     func(r *rand.Rand) string
	specURL string
	unbound bool
}

func norm(s string) string {
	return strings.ToLower(strings.ReplaceAll(s, "_", ""))
}

var reservedTypeNorm = map[string]bool{}

func init() {
	for _, n := range []string{"Config", "ResolverRoot", "DirectiveRoot", "ComplexityRoot", "Stub", "Resolver", "Query", "Mutation", "Subscription", "String", "Int", "Float", "Boolean", "ID",
		"Map", "Any", "Time", "Int64", "Upload", "Uint", "Int32", "Duration", "UUID", "Uint64", "Uint32", "executionContext", "executableSchema", "Omittable", "Marshaler", "Unmarshaler"} {
		reservedTypeNorm[norm(n)] = true
	}
}

func (g *gen) pick(ss []string) string { return ss[g.r.Intn(len(ss))] }
func (g *gen) chance(pct int) bool     { return g.r.Intn(100) < pct }
func (g *gen) feat(k string)           { g.s.Feat[k]++ }
func (g *gen) stress(k string)         { g.s.Stress[k]++ }

// typeName returns a fresh type-level name. Stress classes are drawn when enabled.
func (g *gen) typeName(kind string) string {
	for try := 0; ; try++ {
		var n, class string
		if g.o.Stress && g.chance(30) && try < 20 {
			switch g.r.Intn(4) {
			case 0:
				n, class = g.pick(goKeywords), "type_keyword"
			case 1:
				n, class = g.pick(predeclared), "type_predeclared"
			case 2:
				n, class = UcFirst(g.pick(initialisms))+g.pick(typeWords), "type_initialism"
			default:
				n, class = g.pick(typeWords)+"_"+g.pick(typeWords), "type_underscore"
				if g.chance(30) && !((kind == "object" || kind == "input") && g.o.Avoid["type_leading_underscore"]) {
					n = "_" + n
				}
				if g.chance(30) {
					n += "_"
				}
			}
			if n == "true" || n == "false" || n == "null" {
				continue
			}
		} else {
			n = g.pick(typeWords)
			if g.chance(60) || try > 3 {
				n += g.pick(typeWords)
			}
			if try > 8 {
				g.nameSeq++
				n += fmt.Sprintf("N%d", g.nameSeq)
			}
			if g.o.Stress && g.chance(15) {
				n = LcFirst(n)
				class = "type_lowercase_initial"
			}
		}
		k := norm(n)
		if g.used[k] || reservedTypeNorm[k] || strings.HasSuffix(k, "resolver") || strings.HasPrefix(k, "all") || strings.HasPrefix(k, "is") {
			continue
		}
		g.used[k] = true
		if class != "" {
			g.stress(class)
		}
		return n
	}
}

// collidingTypeName returns a name that normalises to the same Go identifier as an existing one.
func (g *gen) collidingTypeName(base string) (string, bool) {
	cands := []string{}
	if !strings.Contains(base, "_") && len(base) > 3 {
		// split at an inner capital
		for i := 1; i < len(base); i++ {
			if base[i] >= 'A' && base[i] <= 'Z' && base[i-1] >= 'a' && base[i-1] <= 'z' {
				cands = append(cands, base[:i]+"_"+base[i:])
				break
			}
		}
		cands = append(cands, base+"_")
	}
	for _, c := range cands {
		if _, dup := g.byN[c]; !dup && c != base {
			return c, true
		}
	}
	return "", false
}

func UcFirst(s string) string {
	if s == "" {
		return s
	}
	return strings.ToUpper(s[:1]) + s[1:]
}

func LcFirst(s string) string {
	if s == "" {
		return s
	}
	return strings.ToLower(s[:1]) + s[1:]
}

var reservedMember = map[string]bool{"ctx": true, "obj": true, "data": true, "next": true, "rctx": true, "fc": true, "ec": true, "fmt": true, "context": true, "err": true, "args": true, "res": true, "ok": true, "tmp": true, "field": true, "fields": true, "out": true, "it": true, "v": true, "sel": true, "ret": true, "graphql": true, "ast": true, "strconv": true, "sync": true, "atomic": true, "errors": true, "bytes": true, "io": true, "time": true, "introspection": true, "gqlparser": true}

// memberName returns a fresh field / argument / enum-value name; seen holds normalised names.
// where: field | arg | inputfield | enumval | dirarg
func (g *gen) memberName(seen map[string]bool, where string) string {
	for try := 0; ; try++ {
		var n, class string
		if g.o.Stress && g.chance(35) && try < 30 {
			switch g.r.Intn(4) {
			case 0:
				n, class = g.pick(goKeywords), "keyword"
			case 1:
				n, class = g.pick(predeclared), "predeclared"
				if where == "dirarg" && g.o.Avoid["predeclared_dir_arg"] {
					continue // known finding: the generated directive body declares a local of that name
				}
				if where == "arg" && n == "panic" && g.o.Avoid["panic_arg"] {
					continue // known finding: the resolver stub body calls panic(...)
				}
			case 2:
				n, class = g.pick(initialisms), "initialism"
			default:
				n, class = g.pick(underscored), "underscore"
			}
			if where == "arg" && g.chance(4) && !g.o.Avoid["blank_arg"] {
				n, class = "_", "blank"
			}
			if where == "enumval" && (n == "true" || n == "false" || n == "null") {
				continue
			}
			if where == "enumval" && g.chance(50) {
				n = strings.ToUpper(n)
			}
		} else {
			n = g.pick(plainWords)
			if g.chance(40) || try > 3 {
				n += UcFirst(g.pick(plainWords))
			}
			if try > 10 {
				g.nameSeq++
				n += fmt.Sprintf("%d", g.nameSeq)
			}
			if where == "enumval" {
				n = strings.ToUpper(n)
				if g.chance(30) {
					n = strings.ToLower(n)
				}
			}
		}
		k := norm(n)
		if n == "_" {
			k = "_"
		}
		if where != "enumval" && reservedMember[n] {
			continue
		}
		if where == "field" || where == "inputfield" {
			if strings.HasPrefix(k, "get") || strings.HasPrefix(k, "is") || k == "" {
				continue
			}
		}
		if k == "" || seen[k] {
			continue
		}
		seen[k] = true
		if class != "" {
			g.stress(where + "_" + class)
		}
		return n
	}
}

func (g *gen) desc() string {
	switch g.r.Intn(14) {
	case 0:
		return "\"plain description\"\n"
	case 1:
		return "\"\"\"\nblock description with `backticks`, \"quotes\" and a second line\n  indented */ not a comment end\n\"\"\"\n"
	case 2:
		return "\"unicode \\u00e9 \\\" escaped \\\\ backslash\"\n"
	case 3:
		return "\"\"\"single line block\"\"\"\n"
	}
	return ""
}

var builtinScalars = []string{"String", "Int", "Float", "Boolean", "ID"}

func scalarCatalogue() []scalarSpec {
	gq := "github.com/99designs/gqlgen/graphql."
	str := func(v ...string) func(*rand.Rand) string {
		return func(r *rand.Rand) string { return v[r.Intn(len(v))] }
	}
	return []scalarSpec{
		{name: "Map", models: []string{gq + "Map"}, in: true, out: true, lit: str(`{a: 1, b: "x", c: [1, 2], d: {e: null}}`, `{}`)},
		{name: "Any", models: []string{gq + "Any"}, in: true, out: true, lit: str(`1`, `"s"`, `[1, "a"]`, `{k: true}`, `1.5`)},
		{name: "Time", models: []string{gq + "Time"}, in: true, out: true, lit: str(`"2020-01-02T15:04:05Z"`)},
		{name: "Int64", models: []string{gq + "Int64"}, in: true, out: true, lit: str(`9007199254740993`, `-1`, `0`)},
		{name: "Upload", models: []string{gq + "Upload"}, in: true, out: false},
		{name: "Uint", models: []string{gq + "Uint"}, in: true, out: true, lit: str(`7`, `0`)},
		{name: "Int32", models: []string{gq + "Int32"}, in: true, out: true, lit: str(`7`, `-2147483648`)},
		{name: "Duration", models: []string{gq + "Duration"}, in: true, out: true, lit: str(`"PT1H30M"`)},
		{name: "UUID", models: []string{gq + "UUID"}, in: true, out: true, lit: str(`"6ba7b810-9dad-11d1-80b4-00c04fd430c8"`)},
		{name: "Uint64", models: []string{gq + "Uint64"}, in: true, out: true, lit: str(`9223372036854775807`, `1`)},
		{name: "BigNumber", models: []string{gq + "Int64", gq + "Int", gq + "Int32"}, in: true, out: true, lit: str(`12`)},
		{name: "Text", models: []string{gq + "String"}, in: true, out: true, lit: str(`"txt"`, `""`), specURL: "https://example.invalid/text"},
		{name: "Ratio", models: []string{gq + "Float"}, in: true, out: true, lit: str(`0.5`, `2`, `-1e3`)},
		{name: "Flag", models: []string{gq + "Boolean"}, in: true, out: true, lit: str(`true`, `false`)},
		{name: "Key", models: []string{gq + "ID", gq + "IntID"}, in: true, out: true, lit: str(`"k1"`, `5`)},
		{name: "UintKey", models: []string{gq + "UintID"}, in: true, out: true, lit: str(`5`)},
		{name: "Loose", in: true, out: true, unbound: true, lit: str(`"loose"`)},
	}
}

func (g *gen) wrap(base string, outputPos bool) *Ref {
	r := &Ref{Name: base}
	switch x := g.r.Intn(100); {
	case x < 40:
	case x < 58:
		r.NN = true
	case x < 70: // [T]
		r = &Ref{Of: r}
	case x < 80: // [T!]
		r.NN = true
		r = &Ref{Of: r}
	case x < 88: // [T!]!
		r.NN = true
		r = &Ref{Of: r, NN: true}
	case x < 92: // [T]!
		r = &Ref{Of: r, NN: true}
	case x < 96: // [[T!]]!  /  [[T]]
		r.NN = g.chance(50)
		r = &Ref{Of: &Ref{Of: r, NN: g.chance(40)}, NN: g.chance(50)}
		g.feat("list_depth_2")
	default: // [[[T]!]]
		r = &Ref{Of: &Ref{Of: &Ref{Of: r, NN: true}}, NN: g.chance(50)}
		g.feat("list_depth_3")
	}
	if r.Of != nil && r.Of.Of != nil && g.o.Avoid["nested_list_variants"] {
		// known finding: nested lists over one base type that agree on the outer list and its
		// element nullability but differ deeper get the same marshaler key (also through the
		// element types of deeper lists). Outer and element nullability stay free; every deeper
		// level follows one pattern per base type (drawn once).
		var chain []*Ref
		for x := r; x != nil; x = x.Of {
			chain = append(chain, x)
		}
		d := len(chain) - 1
		for i := 2; i <= d; i++ {
			key := fmt.Sprintf("%s|%d", base, d-i)
			nn, ok := g.listShapes[key]
			if !ok {
				nn = chain[i].NN
				g.listShapes[key] = nn
			}
			chain[i].NN = nn
		}
	}
	if r.Of != nil {
		g.feat("list_type")
	}
	if r.NN {
		g.feat("non_null_type")
	}
	return r
}

// literal renders a valid constant of type t. depth bounds input-object recursion.
func (g *gen) literal(t *Ref, depth int) string {
	if !t.NN && g.chance(12) {
		g.feat("default_null")
		return "null"
	}
	if t.Of != nil {
		n := g.r.Intn(3)
		if depth > 2 {
			n = 0
		}
		parts := []string{}
		for i := 0; i < n; i++ {
			parts = append(parts, g.literal(t.Of, depth+1))
		}
		g.feat("default_list")
		return "[" + strings.Join(parts, ", ") + "]"
	}
	switch t.Name {
	case "String":
		g.feat("default_string")
		return g.pick([]string{`"s"`, `""`, `"with \"quote\" and \\ and \n newline"`, `"unicode é"`, `"""block "" string"""`, "\"back`tick\""})
	case "Int":
		g.feat("default_int")
		return g.pick([]string{"0", "1", "-5", "2147483647", "-2147483648"})
	case "Float":
		g.feat("default_float")
		return g.pick([]string{"1.5", "-0.25", "3", "1e3", "6.02E23", "0.0"})
	case "Boolean":
		g.feat("default_boolean")
		return g.pick([]string{"true", "false"})
	case "ID":
		g.feat("default_id")
		return g.pick([]string{`"id1"`, "42"})
	}
	d := g.byN[t.Name]
	if d == nil {
		for _, s := range g.scal {
			if s.name == t.Name && s.lit != nil {
				g.feat("default_custom_scalar")
				return s.lit(g.r)
			}
		}
		return "null"
	}
	switch d.Kind {
	case "enum":
		g.feat("default_enum")
		return d.Values[g.r.Intn(len(d.Values))].Name
	case "input":
		g.feat("default_object")
		parts := []string{}
		for _, f := range d.Fields {
			required := f.T.NN && f.Def == ""
			if required || (depth < 2 && g.chance(35)) {
				if f.T.Base() == "Upload" {
					if required {
						// cannot happen: Upload fields are never required
					}
					continue
				}
				parts = append(parts, f.Name+": "+g.literal(f.T, depth+1))
			}
		}
		return "{" + strings.Join(parts, ", ") + "}"
	}
	return "null"
}

func (g *gen) canDefault(t *Ref) bool {
	b := t.Base()
	if b == "Upload" {
		return false
	}
	if d := g.byN[b]; d != nil && d.Kind == "input" {
		// an input containing a required Upload somewhere cannot be written as a literal; we
		// never make Upload fields required, so any input is fine.
		return true
	}
	return true
}

func (g *gen) inputTypeName(self int) (string, bool) { // returns name, isLaterOrSelfInput
	x := g.r.Intn(100)
	switch {
	case x < 45:
		return g.pick(builtinScalars), false
	case x < 60 && len(g.scal) > 0:
		for i := 0; i < 5; i++ {
			s := g.scal[g.r.Intn(len(g.scal))]
			if s.in {
				g.feat("custom_scalar_input")
				return s.name, false
			}
		}
	case x < 75 && len(g.enums) > 0:
		return g.enums[g.r.Intn(len(g.enums))].Name, false
	case len(g.inputs) > 0:
		i := g.r.Intn(len(g.inputs))
		return g.inputs[i].Name, self >= 0 && i >= self
	}
	return g.pick(builtinScalars), false
}

func (g *gen) outputTypeName() string {
	x := g.r.Intn(100)
	switch {
	case x < 35:
		return g.pick(builtinScalars)
	case x < 45 && len(g.scal) > 0:
		for i := 0; i < 5; i++ {
			s := g.scal[g.r.Intn(len(g.scal))]
			if s.out {
				g.feat("custom_scalar_output")
				return s.name
			}
		}
	case x < 55 && len(g.enums) > 0:
		return g.enums[g.r.Intn(len(g.enums))].Name
	case x < 80 && len(g.objects) > 0:
		return g.objects[g.r.Intn(len(g.objects))].Name
	case x < 90 && len(g.ifaces) > 0:
		g.feat("interface_typed_field")
		return g.ifaces[g.r.Intn(len(g.ifaces))].Name
	case len(g.unions) > 0:
		g.feat("union_typed_field")
		return g.unions[g.r.Intn(len(g.unions))].Name
	}
	return g.pick(builtinScalars)
}

func (g *gen) args(n int) []*Arg {
	seen := map[string]bool{}
	var out []*Arg
	for i := 0; i < n; i++ {
		a := &Arg{Name: g.memberName(seen, "arg")}
		tn, _ := g.inputTypeName(-1)
		a.T = g.wrap(tn, false)
		if g.chance(45) && g.canDefault(a.T) {
			a.Def = g.literal(a.T, 0)
			g.feat("argument_default")
		}
		if g.chance(8) {
			a.Desc = g.desc()
		}
		a.Dirs = g.applyDirs("ARGUMENT_DEFINITION", 25)
		if g.chance(6) {
			a.Dirs = append(a.Dirs, `@deprecated(reason: "arg \"gone\"")`)
			g.feat("deprecated_argument")
			if a.T.NN && a.Def == "" { // required arguments cannot be deprecated
				a.T.NN = false
			}
		}
		out = append(out, a)
	}
	return out
}

// applyDirs renders applications of custom directives declared for loc.
func (g *gen) applyDirs(loc string, pct int) []string {
	var out []string
	if !g.chance(pct) {
		return nil
	}
	var cands []*Directive
	for _, d := range g.dirs {
		for _, l := range d.Locs {
			if l == loc {
				cands = append(cands, d)
			}
		}
	}
	if len(cands) == 0 {
		return nil
	}
	n := 1
	if g.chance(25) {
		n = 2
	}
	usedD := map[string]bool{}
	for i := 0; i < n; i++ {
		d := cands[g.r.Intn(len(cands))]
		if usedD[d.Name] && !d.Repeatable {
			continue
		}
		if usedD[d.Name] {
			g.feat("repeatable_directive_repeated")
		}
		usedD[d.Name] = true
		var parts []string
		for _, a := range d.Args {
			if (a.T.NN && a.Def == "") || g.chance(50) {
				parts = append(parts, a.Name+": "+g.literal(a.T, 1))
			}
		}
		s := "@" + d.Name
		if len(parts) > 0 {
			s += "(" + strings.Join(parts, ", ") + ")"
		}
		out = append(out, s)
		g.feat("directive_applied_" + loc)
	}
	return out
}

var typeSystemLocs = []string{"OBJECT", "FIELD_DEFINITION", "ARGUMENT_DEFINITION", "INPUT_FIELD_DEFINITION", "INPUT_OBJECT", "ENUM", "ENUM_VALUE", "INTERFACE", "UNION", "SCALAR"}
var execLocs = []string{"QUERY", "MUTATION", "SUBSCRIPTION", "FIELD", "FRAGMENT_DEFINITION", "FRAGMENT_SPREAD", "INLINE_FRAGMENT", "VARIABLE_DEFINITION"}

func (g *gen) makeDirectives() {
	n := 3 + g.r.Intn(4)
	seenNames := map[string]bool{"skip": true, "include": true, "deprecated": true, "specifiedby": true, "defer": true, "oneof": true, "gofield": true, "gomodel": true, "gotag": true, "goextrafield": true, "goenum": true}
	// guarantee coverage of the executor-relevant locations over the set
	must := [][]string{
		{"FIELD_DEFINITION", "OBJECT"},
		{"ARGUMENT_DEFINITION", "INPUT_FIELD_DEFINITION"},
		{"QUERY", "MUTATION", "SUBSCRIPTION"},
		{"FIELD"},
		{"ENUM_VALUE", "ENUM", "INPUT_OBJECT", "INTERFACE", "UNION", "SCALAR"},
	}
	for i := 0; i < n; i++ {
		d := &Directive{}
		for {
			nm := g.memberName(map[string]bool{}, "directive")
			if !seenNames[norm(nm)] && nm != "_" {
				seenNames[norm(nm)] = true
				d.Name = nm
				break
			}
		}
		if i < len(must) && (i < 2 || g.chance(75)) {
			d.Locs = append(d.Locs, must[i]...)
			if i == 2 && g.chance(50) { // not always all three operation kinds
				d.Locs = d.Locs[:1+g.r.Intn(3)]
			}
		} else {
			all := append(append([]string{}, typeSystemLocs...), execLocs...)
			k := 1 + g.r.Intn(4)
			seenL := map[string]bool{}
			for j := 0; j < k; j++ {
				l := all[g.r.Intn(len(all))]
				if !seenL[l] {
					seenL[l] = true
					d.Locs = append(d.Locs, l)
				}
			}
		}
		for _, l := range d.Locs {
			g.feat("directive_declared_" + l)
		}
		na := g.r.Intn(4)
		seen := map[string]bool{}
		for j := 0; j < na; j++ {
			a := &Arg{Name: g.memberName(seen, "dirarg")}
			if a.Name == "_" {
				a.Name = "blank_"
			}
			tn, _ := g.inputTypeName(-1)
			if tn == "Upload" {
				tn = "String"
			}
			a.T = g.wrap(tn, false)
			if g.chance(40) {
				a.Def = g.literal(a.T, 1)
				g.feat("directive_argument_default")
			}
			d.Args = append(d.Args, a)
		}
		d.Repeatable = g.chance(25)
		if d.Repeatable {
			g.feat("repeatable_directive")
		}
		if g.chance(15) {
			d.Desc = g.desc()
		}
		g.dirs = append(g.dirs, d)
	}
}

func (g *gen) newDef(kind string) *Def {
	d := &Def{Kind: kind, Name: g.typeName(kind)}
	g.byN[d.Name] = d
	g.s.Defs = append(g.s.Defs, d)
	if g.chance(20) {
		d.Desc = g.desc()
	}
	return d
}

func (g *gen) outField(seen map[string]bool, selfIdx int, allowArgs bool) *Field {
	f := &Field{Name: g.memberName(seen, "field")}
	tn := g.outputTypeName()
	f.T = g.wrap(tn, true)
	if g.o.AcyclicValueStructs && f.T.Of == nil && f.T.NN {
		if d := g.byN[tn]; d != nil && d.Kind == "object" {
			idx := -1
			for i, o := range g.objects {
				if o == d {
					idx = i
				}
			}
			if selfIdx < 0 || idx >= selfIdx {
				f.T.NN = false
			}
		}
	}
	if allowArgs && g.chance(35) {
		f.Args = g.args(1 + g.r.Intn(3))
		g.feat("field_with_arguments")
	}
	if g.chance(10) {
		f.Desc = g.desc()
	}
	return f
}

func cloneField(f *Field) *Field {
	c := &Field{Name: f.Name, T: f.T.clone(), Desc: f.Desc}
	for _, a := range f.Args {
		c.Args = append(c.Args, &Arg{Name: a.Name, T: a.T.clone(), Def: a.Def})
	}
	return c
}

func (g *gen) build() {
	o := g.o
	// 1. custom scalars
	cat := scalarCatalogue()
	g.r.Shuffle(len(cat), func(i, j int) { cat[i], cat[j] = cat[j], cat[i] })
	ns := 3 + g.r.Intn(6)
	if ns > len(cat) {
		ns = len(cat)
	}
	g.scal = cat[:ns]
	sort.Slice(g.scal, func(i, j int) bool { return g.scal[i].name < g.scal[j].name })
	for _, s := range g.scal {
		g.used[norm(s.name)] = true
		g.feat("scalar_" + s.name)
	}

	nObj := o.Types
	if nObj < 2 {
		nObj = 2
	}
	nEnum := 1 + nObj/4 + g.r.Intn(2)
	nInput := 1 + nObj/3 + g.r.Intn(2)
	nIface := 1 + nObj/5 + g.r.Intn(2)
	nUnion := 1 + nObj/6

	// 2. enums (needed by directive arguments and defaults)
	for i := 0; i < nEnum; i++ {
		d := g.newDef("enum")
		seen := map[string]bool{}
		nv := 1 + g.r.Intn(6)
		for j := 0; j < nv; j++ {
			d.Values = append(d.Values, &EnumVal{Name: g.memberName(seen, "enumval")})
		}
		if o.Stress && g.chance(50) {
			// values that normalise to the same Go constant name (docs/reference/name-collision.md)
			base := g.pick(plainWords)
			set := [][]string{
				{base, UcFirst(base), strings.ToUpper(base)},
				{base + "_value", UcFirst(base) + "Value", base + "_Value", UcFirst(base) + "_Value"},
				{base + "1", base + "_1"},
				{base, base + "_"},
			}[g.r.Intn(4)]
			for _, v := range set {
				dup := false
				for _, ev := range d.Values {
					if ev.Name == v {
						dup = true
					}
				}
				if !dup {
					d.Values = append(d.Values, &EnumVal{Name: v})
				}
			}
			g.stress("enum_values_same_go_identifier")
		}
		g.enums = append(g.enums, d)
		g.feat("enum")
	}
	if o.Stress && len(g.enums) > 0 {
		// enum constant <Enum><Value> colliding with a type name
		e := g.enums[0]
		cand := e.Name + UcFirst(strings.ToLower(e.Values[0].Name))
		if !strings.ContainsAny(cand, "_") && !g.used[norm(cand)] && !reservedTypeNorm[norm(cand)] {
			g.used[norm(cand)] = true
			d := &Def{Kind: "object", Name: cand}
			g.byN[d.Name] = d
			g.s.Defs = append(g.s.Defs, d)
			g.objects = append(g.objects, d)
			g.stress("enum_constant_vs_type_name")
		}
	}

	// 3. inputs (two passes: names first so forward references are possible)
	for i := 0; i < nInput; i++ {
		g.inputs = append(g.inputs, g.newDef("input"))
	}
	// 4. directives (may use enums and inputs as argument types); inputs have no fields yet,
	// so directive argument defaults of input type are rendered after inputs are filled: we
	// therefore fill inputs first without directive applications, then directives, then
	// sprinkle applications.
	for i, d := range g.inputs {
		seen := map[string]bool{}
		nf := 1 + g.r.Intn(6)
		for j := 0; j < nf; j++ {
			f := &Field{Name: g.memberName(seen, "inputfield")}
			tn, cyc := g.inputTypeName(i)
			f.T = g.wrap(tn, false)
			if cyc { // self / forward input reference: nullable (list or plain) only
				if f.T.Of == nil {
					f.T.NN = false
				}
				g.feat("input_cycle")
			}
			if tn == "Upload" {
				f.T.NN = false
				if f.T.Of != nil {
					f.T = &Ref{Of: &Ref{Name: "Upload", NN: true}}
				}
			}
			d.Fields = append(d.Fields, f)
		}
		g.feat("input")
	}
	// defaults for input fields: inputs in index order so literals of earlier inputs are complete;
	// a default of a later/self input type is restricted to null / {} when allowed.
	for i, d := range g.inputs {
		for _, f := range d.Fields {
			if !g.chance(35) || !g.canDefault(f.T) {
				continue
			}
			if bd := g.byN[f.T.Base()]; bd != nil && bd.Kind == "input" {
				idx := 0
				for k, x := range g.inputs {
					if x == bd {
						idx = k
					}
				}
				if idx >= i {
					continue
				}
			}
			f.Def = g.literal(f.T, 1)
			g.feat("input_field_default")
		}
	}
	g.makeDirectives()
	for _, d := range g.inputs {
		d.Dirs = g.applyDirs("INPUT_OBJECT", 20)
		for _, f := range d.Fields {
			f.Dirs = g.applyDirs("INPUT_FIELD_DEFINITION", 25)
			if g.chance(5) && (!f.T.NN || f.Def != "") {
				f.Dirs = append(f.Dirs, "@deprecated")
				g.feat("deprecated_input_field")
			}
			if g.chance(4) && !g.o.Avoid["input_field_resolver"] {
				f.Dirs = append(f.Dirs, "@goField(forceResolver: true)")
				g.feat("goField_forceResolver_input_field")
			}
		}
	}
	for _, d := range g.enums {
		d.Dirs = g.applyDirs("ENUM", 20)
		for _, v := range d.Values {
			v.Dirs = g.applyDirs("ENUM_VALUE", 20)
			if g.chance(10) {
				v.Dirs = append(v.Dirs, `@deprecated(reason: "old")`)
				g.feat("deprecated_enum_value")
			}
			if g.chance(8) {
				v.Desc = g.desc()
			}
		}
	}

	// 5. names of objects, interfaces, unions first (forward references)
	for i := 0; i < nIface; i++ {
		g.ifaces = append(g.ifaces, g.newDef("interface"))
	}
	for i := 0; i < nObj; i++ {
		g.objects = append(g.objects, g.newDef("object"))
	}
	if o.Stress && !o.Avoid["type_collision"] {
		// type names that normalise to the same Go identifier as another type
		for _, d := range append([]*Def{}, g.objects...) {
			if g.chance(25) {
				if n, ok := g.collidingTypeName(d.Name); ok {
					nd := &Def{Kind: "object", Name: n}
					g.byN[n] = nd
					g.s.Defs = append(g.s.Defs, nd)
					g.objects = append(g.objects, nd)
					g.stress("type_names_same_go_identifier")
				}
			}
		}
	}
	for i := 0; i < nUnion; i++ {
		g.unions = append(g.unions, g.newDef("union"))
	}

	// 6. interfaces: later ones may implement earlier ones
	for i, d := range g.ifaces {
		seen := map[string]bool{}
		if i > 0 && g.chance(60) {
			p := g.ifaces[g.r.Intn(i)]
			d.Impl = append(d.Impl, p.Name)
			for _, pp := range p.Impl { // transitive closure must be declared
				d.Impl = append(d.Impl, pp)
			}
			for _, f := range p.Fields {
				d.Fields = append(d.Fields, cloneField(f))
				seen[norm(f.Name)] = true
			}
			g.feat("interface_implements_interface")
		}
		nf := 1 + g.r.Intn(4)
		for j := 0; j < nf; j++ {
			d.Fields = append(d.Fields, g.outField(seen, -1, true))
		}
		d.Dirs = g.applyDirs("INTERFACE", 20)
		g.feat("interface")
	}
	// 7. objects
	for i, d := range g.objects {
		seen := map[string]bool{}
		if g.chance(55) {
			k := 1 + g.r.Intn(2)
			for j := 0; j < k; j++ {
				p := g.ifaces[g.r.Intn(len(g.ifaces))]
				for _, nm := range append([]string{p.Name}, p.Impl...) {
					has := false
					for _, e := range d.Impl {
						if e == nm {
							has = true
						}
					}
					if has {
						continue
					}
					// field-name clashes between unrelated interfaces: the same name must have
					// a compatible type; skip the interface when a clash exists
					clash := false
					pi := g.byN[nm]
					for _, f := range pi.Fields {
						if seen[norm(f.Name)] {
							ok := false
							for _, ef := range d.Fields {
								if ef.Name == f.Name && (ef.T.String() == f.T.String() || ef.T.String() == f.T.String()+"!") && sameArgs(ef, f) {
									ok = true
								}
							}
							if !ok {
								clash = true
							}
						}
					}
					if clash {
						continue
					}
					d.Impl = append(d.Impl, nm)
					for _, f := range pi.Fields {
						if !seen[norm(f.Name)] {
							c := cloneField(f)
							if !c.T.NN && g.chance(15) {
								c.T.NN = true // covariant: non-null strengthens nullable
								if g.o.AcyclicValueStructs && c.T.Of == nil {
									if bd := g.byN[c.T.Name]; bd != nil && bd.Kind == "object" {
										c.T.NN = false
									}
								}
								g.feat("covariant_non_null_field")
							}
							d.Fields = append(d.Fields, c)
							seen[norm(f.Name)] = true
						}
					}
				}
			}
			// every declared interface's parents must be declared too
			d.Impl = g.closeImpl(d.Impl)
			if len(d.Impl) > 0 {
				g.feat("object_implements_interface")
			}
			if len(d.Impl) > 1 {
				g.feat("object_implements_several_interfaces")
			}
		}
		nf := 1 + g.r.Intn(6)
		for j := 0; j < nf; j++ {
			d.Fields = append(d.Fields, g.outField(seen, i, true))
		}
		d.Dirs = g.applyDirs("OBJECT", 25)
		g.feat("object")
	}
	// after all objects exist, a closed implements list needs every parent's fields: verify
	for _, d := range g.objects {
		for _, nm := range d.Impl {
			for _, f := range g.byN[nm].Fields {
				found := false
				for _, ef := range d.Fields {
					if ef.Name == f.Name {
						found = true
					}
				}
				if !found {
					d.Fields = append(d.Fields, cloneField(f))
				}
			}
		}
	}
	// field directives / goField etc. on objects and interfaces
	for _, d := range append(append([]*Def{}, g.objects...), g.ifaces...) {
		for _, f := range d.Fields {
			f.Dirs = append(f.Dirs, g.applyDirs("FIELD_DEFINITION", 25)...)
			if g.chance(8) {
				f.Dirs = append(f.Dirs, `@deprecated(reason: "use something `+"`else`"+`")`)
				g.feat("deprecated_field")
			}
			if d.Kind == "object" && g.chance(20) {
				if g.o.Avoid["omit_resolver_fields"] && g.fromInterface(d, f) {
					continue // known finding: getter of an omitted resolver field
				}
				f.Dirs = append(f.Dirs, "@goField(forceResolver: true)")
				g.feat("goField_forceResolver")
				if g.fromInterface(d, f) {
					g.feat("goField_forceResolver_on_interface_field")
				}
			}
		}
	}
	// 8. unions
	for _, d := range g.unions {
		k := 1 + g.r.Intn(4)
		seen := map[string]bool{}
		for j := 0; j < k; j++ {
			m := g.objects[g.r.Intn(len(g.objects))]
			if !seen[m.Name] {
				seen[m.Name] = true
				d.Members = append(d.Members, m.Name)
			}
		}
		d.Dirs = g.applyDirs("UNION", 20)
		g.feat("union")
	}
	// 9. roots
	rootNames := [3]string{"Query", "Mutation", "Subscription"}
	if g.chance(12) {
		rootNames = [3]string{"RootQuery", "RootMutation", "RootSubscription"}
		g.feat("custom_root_type_names")
	}
	g.s.RootNames = rootNames
	mk := func(kind, name string, n int) *Def {
		d := &Def{Kind: "object", Name: name, Root: kind}
		g.byN[name] = d
		g.s.Defs = append(g.s.Defs, d)
		seen := map[string]bool{}
		for j := 0; j < n; j++ {
			f := g.outField(seen, -1, true)
			f.Dirs = g.applyDirs("FIELD_DEFINITION", 25)
			d.Fields = append(d.Fields, f)
		}
		if kind != "query" || true {
			d.Dirs = g.applyDirs("OBJECT", 10)
		}
		return d
	}
	q := mk("query", rootNames[0], 2+g.r.Intn(5))
	// make every object / interface / union reachable from Query at least through one field
	// for a few of them (reachability is not required by gqlgen, but it exercises marshalers)
	seenQ := map[string]bool{}
	for _, f := range q.Fields {
		seenQ[norm(f.Name)] = true
	}
	for _, d := range g.s.Defs {
		if (d.Kind == "object" && d.Root == "" || d.Kind == "interface" || d.Kind == "union") && g.chance(30) {
			f := &Field{Name: g.memberName(seenQ, "field"), T: g.wrap(d.Name, true)}
			if g.chance(50) {
				f.Args = g.args(1 + g.r.Intn(2))
			}
			q.Fields = append(q.Fields, f)
		}
	}
	// every input gets used by some argument
	for _, in := range g.inputs {
		if g.chance(60) {
			f := &Field{Name: g.memberName(seenQ, "field"), T: g.wrap("String", true)}
			a := &Arg{Name: g.memberName(map[string]bool{}, "arg"), T: g.wrap(in.Name, false)}
			if g.chance(30) {
				a.Def = g.literal(a.T, 0)
			}
			f.Args = []*Arg{a}
			q.Fields = append(q.Fields, f)
		}
	}
	if g.chance(70) {
		mk("mutation", rootNames[1], 1+g.r.Intn(4))
		g.feat("mutation_root")
	}
	if g.chance(60) {
		mk("subscription", rootNames[2], 1+g.r.Intn(3))
		g.feat("subscription_root")
	}
	g.s.TypeCount = len(g.s.Defs)
}

// enumsInNullableElementLists returns the types used as a nullable list element or inside a
// nested list somewhere (every list shape other than [E!] / [E!]!).
func (g *gen) enumsInNullableElementLists() map[string]bool {
	out := map[string]bool{}
	visit := func(r *Ref) {
		if r == nil || r.Of == nil {
			return
		}
		if r.Of.Of != nil || !r.Of.NN {
			out[r.Base()] = true
		}
	}
	for _, d := range g.s.Defs {
		for _, f := range d.Fields {
			visit(f.T)
			for _, a := range f.Args {
				visit(a.T)
			}
		}
	}
	for _, d := range g.dirs {
		for _, a := range d.Args {
			visit(a.T)
		}
	}
	return out
}

func (g *gen) fromInterface(d *Def, f *Field) bool {
	for _, nm := range d.Impl {
		for _, pf := range g.byN[nm].Fields {
			if pf.Name == f.Name {
				return true
			}
		}
	}
	return false
}

// KnownClasses are the workload classes of the known findings of C17 (known_findings.txt). General
// projects avoid them (precisely: only the failing conjunction of schema feature and option);
// dedicated projects inject the minimal witness of exactly one class.
var KnownClasses = []string{"type_collision", "enum_values_bind", "exec_directive_files", "type_leading_underscore", "blank_arg", "omit_resolver_fields", "nested_list_variants", "enum_values_list", "predeclared_dir_arg", "panic_arg", "root_typed_field"}

// KnownSignature maps a known class to its signature in known_findings.txt.
var KnownSignature = map[string]string{
	"type_collision":          "type-names-normalising-to-one-go-identifier",
	"enum_values_bind":        "function-syntax-with-enum-values-binding",
	"exec_directive_files":    "follow-schema-executable-directives-in-several-files",
	"type_leading_underscore": "type-name-leading-underscore-with-resolver",
	"blank_arg":               "stubgen-blank-argument-name",
	"omit_resolver_fields":    "omit-resolver-fields-with-interface-getter",
	"nested_list_variants":    "nested-list-same-go-type-different-inner-nullability",
	"enum_values_list":        "enum-values-binding-in-nullable-element-or-nested-list",
	"predeclared_dir_arg":     "predeclared-identifier-as-directive-argument-name",
	"panic_arg":               "argument-named-panic-with-resolver-section",
	"root_typed_field":        "omit-root-models-with-root-typed-field",
}

// inject appends the minimal witness of one known-finding class to the schema.
func (g *gen) inject() {
	add := func(d *Def) *Def {
		g.byN[d.Name] = d
		g.s.Defs = append(g.s.Defs, d)
		return d
	}
	q := g.byN[g.s.RootNames[0]]
	qf := func(name string, t *Ref, args ...*Arg) {
		q.Fields = append(q.Fields, &Field{Name: name, T: t, Args: args})
	}
	intT := func() *Ref { return &Ref{Name: "Int"} }
	if g.o.Inject == "" && g.o.Seed%3 == 0 {
		// type names that normalise to one Go identifier WITHOUT the failing conjunction of the
		// known finding (no interface involved): modelgen numbers them (BcItem, BcItem0, BcItem1)
		for i, n := range []string{"Bc_Item", "BcItem", "bc_item"} {
			add(&Def{Kind: "object", Name: n, Fields: []*Field{{Name: "bcx", T: intT()}, {Name: "bcs", T: &Ref{Name: "String"}}}})
			qf(fmt.Sprintf("bcItem%d", i), &Ref{Name: n})
		}
		for i, n := range []string{"Bc_Kind", "BcKind", "bc_kind"} {
			// (not registered in g.enums: these stay plain generated enums, never bound to Go types)
			add(&Def{Kind: "enum", Name: n, Values: []*EnumVal{{Name: "LO"}, {Name: "HI"}}})
			qf(fmt.Sprintf("bcKind%d", i), &Ref{Name: n}, &Arg{Name: "k", T: &Ref{Name: n}})
		}
		g.feat("benign_type_name_collisions")
	}
	if g.o.Inject == "" && g.o.Seed%4 == 3 {
		// an input object bound to map[string]interface{} (the documented changeset pattern)
		in := add(&Def{Kind: "input", Name: "MiChanges", Fields: []*Field{{Name: "name", T: &Ref{Name: "String"}}, {Name: "qty", T: intT()}, {Name: "tags", T: &Ref{Of: &Ref{Name: "String", NN: true}}}}})
		g.inputs = append(g.inputs, in)
		qf("miApply", &Ref{Name: "Boolean"}, &Arg{Name: "changes", T: &Ref{Name: "MiChanges"}}, &Arg{Name: "required", T: &Ref{Name: "MiChanges", NN: true}})
		g.s.MapInputs = append(g.s.MapInputs, "MiChanges")
		g.feat("input_bound_to_map")
	}
	if g.o.Inject == "" && g.o.Seed%4 == 1 {
		// two generated object types that hold each other by value-typed (non-null, non-list) fields:
		// with struct_fields_always_pointers: false modelgen has to break the cycle itself
		add(&Def{Kind: "object", Name: "MuUser", Fields: []*Field{{Name: "mid", T: &Ref{Name: "ID", NN: true}}, {Name: "profile", T: &Ref{Name: "MuProfile", NN: true}}}})
		add(&Def{Kind: "object", Name: "MuProfile", Fields: []*Field{{Name: "bio", T: &Ref{Name: "String"}}, {Name: "user", T: &Ref{Name: "MuUser", NN: true}}, {Name: "backup", T: &Ref{Name: "MuUser", NN: true}}}})
		qf("muUser", &Ref{Name: "MuUser"})
		g.feat("mutual_non_null_object_references")
	}
	if (g.o.Inject == "" && g.o.Seed%4 == 2 && !g.o.Avoid["root_typed_field"]) || g.o.Inject == "root_typed_field" {
		// a non-root object with fields of the query root type (Relay-style payloads `query: Query!`);
		// with omit_root_models: true the root has no Go model to bind such a field to and the
		// generator dereferences a nil type reference (known finding): general projects carry the
		// fields only where root models are generated
		rootQ := g.s.RootNames[0]
		add(&Def{Kind: "object", Name: "RrPayload", Fields: []*Field{{Name: "ok", T: &Ref{Name: "Boolean"}}, {Name: "query", T: &Ref{Name: rootQ, NN: true}},
			{Name: "maybe", T: &Ref{Name: rootQ}}, {Name: "many", T: &Ref{Of: &Ref{Name: rootQ, NN: true}}}}})
		qf("rrPayload", &Ref{Name: "RrPayload"})
		g.feat("non_root_object_with_root_typed_fields")
	}
	switch g.o.Inject {
	case "type_collision":
		add(&Def{Kind: "interface", Name: "KfShape", Fields: []*Field{{Name: "kfx", T: intT()}}})
		add(&Def{Kind: "object", Name: "Kf_Pair", Impl: []string{"KfShape"}, Fields: []*Field{{Name: "kfx", T: intT()}}})
		add(&Def{Kind: "object", Name: "KfPair", Fields: []*Field{{Name: "kfy", T: &Ref{Name: "String"}}}})
		qf("kfA", &Ref{Name: "Kf_Pair"})
		qf("kfB", &Ref{Name: "KfPair"})
		qf("kfI", &Ref{Name: "KfShape"})
	case "enum_values_bind":
		e := add(&Def{Kind: "enum", Name: "KfLevel", Values: []*EnumVal{{Name: "LO"}, {Name: "HI"}}})
		g.enums = append(g.enums, e)
		qf("kfLevel", &Ref{Name: "KfLevel"}, &Arg{Name: "l", T: &Ref{Name: "KfLevel"}})
	case "enum_values_list":
		e := add(&Def{Kind: "enum", Name: "KfLevel", Values: []*EnumVal{{Name: "LO"}, {Name: "HI"}}})
		g.enums = append(g.enums, e)
		qf("kfLevels", intT(), &Arg{Name: "l", T: &Ref{Of: &Ref{Name: "KfLevel"}}})
	case "exec_directive_files":
		g.dirs = append(g.dirs, &Directive{Name: "kfOpA", Locs: []string{"QUERY"}, file: 0}, &Directive{Name: "kfOpB", Locs: []string{"QUERY"}, file: 1})
	case "type_leading_underscore":
		add(&Def{Kind: "object", Name: "_KfThing", Fields: []*Field{{Name: "kfx", T: intT(), Dirs: []string{"@goField(forceResolver: true)"}}}})
		qf("kfThing", &Ref{Name: "_KfThing"})
	case "blank_arg":
		qf("kfBlank", intT(), &Arg{Name: "_", T: intT()})
	case "panic_arg":
		qf("kfPanic", intT(), &Arg{Name: "panic", T: intT()})
	case "predeclared_dir_arg":
		in := add(&Def{Kind: "input", Name: "KfIn", Fields: []*Field{{Name: "a", T: intT()}}})
		g.inputs = append(g.inputs, in)
		g.dirs = append(g.dirs, &Directive{Name: "kfLim", Locs: []string{"FIELD_DEFINITION"}, Args: []*Arg{{Name: "any", T: intT()}, {Name: "m", T: &Ref{Name: "KfIn"}}}})
		q.Fields = append(q.Fields, &Field{Name: "kfLimited", T: intT(), Dirs: []string{"@kfLim(any: 1, m: {})"}})
	case "omit_resolver_fields":
		add(&Def{Kind: "interface", Name: "KfShape", Fields: []*Field{{Name: "kfx", T: intT()}}})
		add(&Def{Kind: "object", Name: "KfCircle", Impl: []string{"KfShape"}, Fields: []*Field{{Name: "kfx", T: intT(), Dirs: []string{"@goField(forceResolver: true)"}}}})
		qf("kfI", &Ref{Name: "KfShape"})
	case "nested_list_variants":
		add(&Def{Kind: "interface", Name: "KfNode", Fields: []*Field{{Name: "kfid", T: &Ref{Name: "ID"}}}})
		add(&Def{Kind: "object", Name: "KfLeaf", Impl: []string{"KfNode"}, Fields: []*Field{{Name: "kfid", T: &Ref{Name: "ID"}}}})
		qf("kfA", &Ref{Of: &Ref{Of: &Ref{Name: "KfNode"}, NN: true}})
		qf("kfB", &Ref{Of: &Ref{Of: &Ref{Name: "KfNode", NN: true}, NN: true}})
	case "root_typed_field":
		// the witness (RrPayload) was added above
	default:
		return
	}
	g.feat("inject:" + g.o.Inject)
}

func sameArgs(a, b *Field) bool {
	if len(a.Args) != len(b.Args) {
		return false
	}
	for i := range a.Args {
		if a.Args[i].Name != b.Args[i].Name || a.Args[i].T.String() != b.Args[i].T.String() {
			return false
		}
	}
	return true
}

func (g *gen) closeImpl(in []string) []string {
	seen := map[string]bool{}
	var out []string
	var add func(n string)
	add = func(n string) {
		if seen[n] {
			return
		}
		seen[n] = true
		out = append(out, n)
		for _, p := range g.byN[n].Impl {
			add(p)
		}
	}
	for _, n := range in {
		add(n)
	}
	return out
}

// Generate builds one random schema.
func Generate(o Opts) *Schema {
	if o.Files < 1 {
		o.Files = 1
	}
	if o.Avoid == nil {
		o.Avoid = map[string]bool{}
	}
	g := &gen{r: rand.New(rand.NewSource(o.Seed)), o: o, used: map[string]bool{}, byN: map[string]*Def{}, listShapes: map[string]bool{},
		s: &Schema{Feat: map[string]int{}, Stress: map[string]int{}, EnumBind: map[string]string{}}}
	g.build()
	g.inject()
	if o.BoundPkg != "" {
		g.bind()
	}
	g.render()
	g.s.Directives = g.dirs
	return g.s
}
