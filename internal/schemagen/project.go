package schemagen

import (
	"fmt"
	"math/rand"
	"os"
	"path/filepath"
	"sort"
	"strings"
)

// BoolOptions are the documented boolean generator options (docs/content/config.md and
// codegen/config/config.go); each is sampled independently per project.
var BoolOptions = []string{
	"omit_slice_element_pointers",
	"omit_getters",
	"omit_interface_checks",
	"omit_complexity",
	"omit_gqlgen_file_notice",
	"omit_gqlgen_version_in_file_notice",
	"omit_root_models",
	"omit_resolver_fields",
	"omit_panic_handler",
	"use_function_syntax_for_execution_context",
	"call_argument_directives_with_null",
	"struct_fields_always_pointers",
	"return_pointers_in_unmarshalinput",
	"resolvers_always_return_pointers",
	"nullable_input_omittable",
	"enable_model_json_omitempty_tag",
	"enable_model_json_omitzero_tag",
}

// Cfg is one generator configuration.
type Cfg struct {
	ExecLayout                            string // single-file | follow-schema
	ExecDir                               string // "" = project root, else sub directory
	ExecTemplate                          string // filename_template for follow-schema ("" = default)
	ExecPkgGiven                          bool   // write exec.package explicitly
	ModelMode                             string // same | sub | default (model section omitted)
	Resolver                              string // none | single-file | follow-schema
	ResolverSub                           bool   // resolver in its own sub package (else the exec package)
	ResolverTmpl                          string // filename_template for follow-schema resolvers
	ResolverType                          string
	OmitTemplateComment, PreserveResolver bool
	Bools                                 map[string]int // -1 absent (documented default), 0 false, 1 true
	WorkerLimit                           int            // -1 absent
	Autobind                              bool
	BoundDir                              string // directory of the hand-written autobind package ("bound", or "pkg/model": same package name as the generated model package)
	SchemaDir                             string // "" or sub directory
	SchemaGlob                            string
	FirstSchemaGlob                       string // listed before SchemaGlob when set (a source inside the exec dir)
	StructTag                             string
	Initialisms                           int // 0 none, 1 add, 2 replace
	LocalPrefix                           bool
	SkipValidation                        bool
	IDModels                              int // 0 default, 1 ID bound to [ID, Int, Int64, Int32], 2 Int bound to Int32 + Int64 scalar
	SkipRuntimeFirstDirective             bool
}

// RandomCfg draws configuration number idx of a run. The first rows are forced so that both exec
// layouts, both resolver layouts, every model mode and function syntax appear even in tiny runs.
func RandomCfg(r *rand.Rand, idx int) Cfg {
	c := Cfg{Bools: map[string]int{}, WorkerLimit: -1}
	ch := func(p int) bool { return r.Intn(100) < p }
	c.ExecLayout = []string{"single-file", "follow-schema"}[idx%2]
	c.ExecDir = []string{"", "graph", "graph"}[(idx/2)%3]
	c.ExecPkgGiven = ch(70)
	if c.ExecLayout == "follow-schema" && ch(30) {
		c.ExecTemplate = "{name}.gen.go"
	}
	c.ModelMode = []string{"same", "sub", "default", "sub"}[(idx/3)%4]
	c.Resolver = []string{"none", "single-file", "follow-schema", "follow-schema"}[(idx/2+idx)%4]
	c.ResolverSub = ch(50)
	if c.Resolver == "follow-schema" && ch(30) {
		c.ResolverTmpl = "{name}.res.go"
	}
	if ch(25) {
		c.ResolverType = "Root"
	}
	c.OmitTemplateComment = ch(30)
	c.PreserveResolver = ch(20)
	for i, o := range BoolOptions {
		switch x := r.Intn(10); {
		case x < 4:
			c.Bools[o] = 1
		case x < 8:
			c.Bools[o] = 0
		default:
			c.Bools[o] = -1
		}
		_ = i
	}
	// function syntax: force an even split independent of the other draws
	c.Bools["use_function_syntax_for_execution_context"] = (idx / 2) % 2
	if ch(70) {
		c.WorkerLimit = []int{0, 1, 2, 8, 1000}[r.Intn(5)]
	}
	c.Autobind = idx%3 == 1
	c.BoundDir = "bound"
	if m := (idx / 3) % 4; m == 1 || m == 2 {
		c.BoundDir = "pkg/model" // same package name as the generated model package: import aliasing
	}
	if ch(40) {
		c.SchemaDir = "schema"
	}
	c.SchemaGlob = "*.graphql"
	if c.SchemaDir != "" {
		c.SchemaGlob = []string{"schema/*.graphql", "schema/**/*.graphql", "schema/*.graphql"}[r.Intn(3)]
	}
	if ch(25) {
		c.StructTag = []string{"json", "gql"}[r.Intn(2)]
	}
	if ch(25) {
		c.Initialisms = 1 + r.Intn(2)
	}
	c.LocalPrefix = ch(20)
	c.SkipValidation = !ch(8)
	if ch(30) {
		c.IDModels = 1 + r.Intn(2)
	}
	c.SkipRuntimeFirstDirective = ch(15)
	return c
}

// NeedsAcyclicValueStructs: with struct_fields_always_pointers: false a non-null object field is
// embedded by value, so the schema must not contain a cycle of such fields.
func (c Cfg) NeedsAcyclicValueStructs() bool { return c.Bools["struct_fields_always_pointers"] == 0 }

// Labels returns the option labels of this configuration for evidence counters.
func (c Cfg) Labels() []string {
	l := []string{"exec_layout=" + c.ExecLayout, "model=" + c.ModelMode, "resolver=" + c.Resolver}
	if c.ExecDir == "" {
		l = append(l, "exec_dir=root")
	} else {
		l = append(l, "exec_dir=sub")
	}
	if c.Resolver != "none" {
		if c.ResolverSub {
			l = append(l, "resolver_pkg=own")
		} else {
			l = append(l, "resolver_pkg=exec")
		}
		if c.PreserveResolver {
			l = append(l, "preserve_resolver=true")
		}
		if c.OmitTemplateComment {
			l = append(l, "omit_template_comment=true")
		}
	}
	for _, o := range BoolOptions {
		switch c.Bools[o] {
		case 1:
			l = append(l, o+"=true")
		case 0:
			l = append(l, o+"=false")
		default:
			l = append(l, o+"=unset")
		}
	}
	if c.WorkerLimit < 0 {
		l = append(l, "worker_limit=unset")
	} else {
		l = append(l, fmt.Sprintf("worker_limit=%d", c.WorkerLimit))
	}
	l = append(l, fmt.Sprintf("autobind=%v", c.Autobind), fmt.Sprintf("skip_validation=%v", c.SkipValidation))
	if c.Autobind {
		l = append(l, "autobind_package="+filepath.Base(c.BoundDir))
	}
	if c.StructTag != "" {
		l = append(l, "struct_tag="+c.StructTag)
	}
	if c.Initialisms > 0 {
		l = append(l, fmt.Sprintf("go_initialisms=%d", c.Initialisms))
	}
	if c.LocalPrefix {
		l = append(l, "local_prefix=set")
	}
	if c.IDModels > 0 {
		l = append(l, fmt.Sprintf("builtin_scalar_models=%d", c.IDModels))
	}
	if c.ExecTemplate != "" {
		l = append(l, "exec_filename_template=custom")
	}
	if c.ResolverTmpl != "" {
		l = append(l, "resolver_filename_template=custom")
	}
	return l
}

func join(dir, f string) string {
	if dir == "" {
		return f
	}
	return dir + "/" + f
}

// YAML renders gqlgen.yml. pkg is the project (root directory) name, importBase the import path
// of the project root.
func (c Cfg) YAML(pkg, importBase string, s *Schema) string {
	var b strings.Builder
	b.WriteString("schema:\n")
	if c.FirstSchemaGlob != "" {
		fmt.Fprintf(&b, "  - %q\n", c.FirstSchemaGlob)
	}
	fmt.Fprintf(&b, "  - %q\n", c.SchemaGlob)
	execPkg := pkg
	if c.ExecDir != "" {
		execPkg = filepath.Base(c.ExecDir)
	}
	b.WriteString("exec:\n")
	if c.ExecLayout == "follow-schema" {
		d := c.ExecDir
		if d == "" {
			d = "."
		}
		fmt.Fprintf(&b, "  layout: follow-schema\n  dir: %s\n", d)
		if c.ExecTemplate != "" {
			fmt.Fprintf(&b, "  filename_template: %q\n", c.ExecTemplate)
		}
	} else {
		fmt.Fprintf(&b, "  filename: %s\n", join(c.ExecDir, "generated.go"))
	}
	if c.ExecPkgGiven {
		fmt.Fprintf(&b, "  package: %s\n", execPkg)
	}
	if c.WorkerLimit >= 0 {
		fmt.Fprintf(&b, "  worker_limit: %d\n", c.WorkerLimit)
	}
	switch c.ModelMode {
	case "same":
		fmt.Fprintf(&b, "model:\n  filename: %s\n", join(c.ExecDir, "models_gen.go"))
		if c.ExecPkgGiven {
			fmt.Fprintf(&b, "  package: %s\n", execPkg)
		}
	case "sub":
		fmt.Fprintf(&b, "model:\n  filename: %s\n  package: model\n", join(join(c.ExecDir, "model"), "models_gen.go"))
	}
	switch c.Resolver {
	case "single-file":
		d := c.ExecDir
		if c.ResolverSub {
			d = join(c.ExecDir, "resolvers")
		}
		fmt.Fprintf(&b, "resolver:\n  layout: single-file\n  filename: %s\n", join(d, "resolver.go"))
		if c.ResolverSub {
			b.WriteString("  package: resolvers\n")
		} else if c.ExecPkgGiven {
			fmt.Fprintf(&b, "  package: %s\n", execPkg)
		}
	case "follow-schema":
		d := c.ExecDir
		if c.ResolverSub {
			d = join(c.ExecDir, "resolvers")
		}
		if d == "" {
			d = "."
		}
		fmt.Fprintf(&b, "resolver:\n  layout: follow-schema\n  dir: %s\n", d)
		if c.ResolverSub {
			b.WriteString("  package: resolvers\n")
		} else if c.ExecPkgGiven {
			fmt.Fprintf(&b, "  package: %s\n", execPkg)
		}
		if c.ResolverTmpl != "" {
			fmt.Fprintf(&b, "  filename_template: %q\n", c.ResolverTmpl)
		}
	}
	if c.Resolver != "none" {
		if c.ResolverType != "" {
			fmt.Fprintf(&b, "  type: %s\n", c.ResolverType)
		}
		if c.OmitTemplateComment {
			b.WriteString("  omit_template_comment: true\n")
		}
		if c.PreserveResolver {
			b.WriteString("  preserve_resolver: true\n")
		}
	}
	for _, o := range BoolOptions {
		switch c.Bools[o] {
		case 1:
			fmt.Fprintf(&b, "%s: true\n", o)
		case 0:
			fmt.Fprintf(&b, "%s: false\n", o)
		}
	}
	if c.StructTag != "" {
		fmt.Fprintf(&b, "struct_tag: %s\n", c.StructTag)
	}
	switch c.Initialisms {
	case 1:
		b.WriteString("go_initialisms:\n  replace_defaults: false\n  initialisms:\n    - 'CC'\n    - 'BCC'\n")
	case 2:
		b.WriteString("go_initialisms:\n  replace_defaults: true\n  initialisms:\n    - 'ID'\n    - 'URL'\n    - 'VM'\n")
	}
	if c.LocalPrefix {
		b.WriteString("local_prefix: verif\n")
	}
	if c.Autobind && s.BoundGo != "" {
		fmt.Fprintf(&b, "autobind:\n  - %q\n", importBase+"/"+c.BoundDir)
	}
	if c.SkipRuntimeFirstDirective && len(s.Directives) > 0 {
		fmt.Fprintf(&b, "directives:\n  %s:\n    skip_runtime: true\n", s.Directives[len(s.Directives)-1].Name)
	}
	var models strings.Builder
	gq := "github.com/99designs/gqlgen/graphql."
	switch c.IDModels {
	case 1:
		fmt.Fprintf(&models, "  ID:\n    model:\n      - %sID\n      - %sInt\n      - %sInt64\n      - %sInt32\n", gq, gq, gq, gq)
	case 2:
		fmt.Fprintf(&models, "  Int:\n    model:\n      - %sInt32\n", gq)
	}
	for _, sb := range s.Scalars {
		if sb.Inline {
			continue
		}
		if c.IDModels == 2 && sb.Name == "Int" {
			continue
		}
		fmt.Fprintf(&models, "  %s:\n    model:\n", sb.Name)
		for _, m := range sb.Models {
			fmt.Fprintf(&models, "      - %s\n", m)
		}
	}
	if c.Autobind {
		var ks []string
		for k := range s.EnumBind {
			ks = append(ks, k)
		}
		sort.Strings(ks)
		for _, k := range ks {
			models.WriteString(s.EnumBind[k])
		}
	}
	for _, mi := range s.MapInputs {
		fmt.Fprintf(&models, "  %s:\n    model: \"map[string]interface{}\"\n", mi)
	}
	if models.Len() > 0 {
		b.WriteString("models:\n" + models.String())
	}
	b.WriteString("skip_mod_tidy: true\n")
	if c.SkipValidation {
		b.WriteString("skip_validation: true\n")
	}
	return b.String()
}

// Project is one (schema, config) generator input.
type Project struct {
	Name   string
	Cfg    Cfg
	Schema *Schema
	YAML   string
}

// ProjectOpts selects one project of a run.
type ProjectOpts struct {
	Seed       int64
	Idx        int
	Name       string // project (root directory / package) name
	ImportBase string // import path of the project root
	Size       int    // approximate number of object types
	Stress     bool   // identifier stress
	Avoid      []string
	Inject     string       // dedicated project: inject the witness of this known-finding class
	AllowKnown bool         // do not avoid the known-finding classes (calibration / triage only)
	Tweak      func(c *Cfg) // optional: adjust the drawn configuration before the schema is generated
}

// BuildProject draws one (schema, configuration) project; a pure function of its options.
func BuildProject(po ProjectOpts) *Project {
	r := rand.New(rand.NewSource(po.Seed*7919 + int64(po.Idx)*104729 + 13))
	c := RandomCfg(r, po.Idx)
	if po.Tweak != nil {
		po.Tweak(&c)
	}
	o := Opts{Seed: po.Seed*1000003 + int64(po.Idx), Types: po.Size, Files: 1 + r.Intn(4), Dir: c.SchemaDir, Stress: po.Stress, Avoid: map[string]bool{}, Inject: po.Inject}
	for _, a := range po.Avoid {
		if a != "" {
			o.Avoid[a] = true
		}
	}
	// dedicated project of one known-finding class: force the options of the failing conjunction
	if po.Inject != "" {
		c.SkipRuntimeFirstDirective = false // the injected directives are declared last
	}
	switch po.Inject {
	case "enum_values_bind":
		c.Autobind = true
		c.Bools["use_function_syntax_for_execution_context"] = 1
	case "enum_values_list":
		c.Autobind = true
		c.Bools["use_function_syntax_for_execution_context"] = 0
	case "exec_directive_files":
		c.ExecLayout = "follow-schema"
		if o.Files < 2 {
			o.Files = 2
		}
	case "type_leading_underscore", "panic_arg":
		if c.Resolver == "none" {
			c.Resolver = "single-file"
		}
	case "omit_resolver_fields":
		c.Bools["omit_resolver_fields"] = 1
		c.Bools["omit_getters"] = 0
	case "root_typed_field":
		c.Bools["omit_root_models"] = 1
	}
	// general avoidance of the known-finding conjunctions (precise: only where the option that
	// makes the class fail is set)
	if !po.AllowKnown {
		o.Avoid["type_collision"] = true
		o.Avoid["nested_list_variants"] = true
		o.Avoid["blank_arg"] = true // gendrv always adds stubgen
		o.Avoid["enum_values_list"] = true
		o.Avoid["predeclared_dir_arg"] = true
		if c.Bools["use_function_syntax_for_execution_context"] == 1 {
			o.Avoid["enum_values_bind"] = true
		}
		if c.ExecLayout == "follow-schema" {
			o.Avoid["exec_directive_files"] = true
		}
		if c.Resolver != "none" {
			o.Avoid["type_leading_underscore"] = true
			o.Avoid["panic_arg"] = true
		}
		if c.Bools["omit_resolver_fields"] == 1 && c.Bools["omit_getters"] != 1 {
			o.Avoid["omit_resolver_fields"] = true
		}
		if c.Bools["omit_root_models"] == 1 {
			o.Avoid["root_typed_field"] = true
		}
		if po.Inject == "enum_values_bind" || po.Inject == "enum_values_list" {
			delete(o.Avoid, po.Inject) // the witness enum is bound by the autobind writer
		}
	}
	// the exec package lives in graph/, the schema elsewhere: put the first schema file next to the
	// generated code and list it first (embeddable source first, inlined sources last)
	if po.Inject == "" && c.ExecDir == "graph" && c.SchemaDir != "graph" && o.Files >= 2 && po.Idx%2 == 1 {
		o.FirstFileDir = "graph"
		c.FirstSchemaGlob = "graph/*.graphql"
	}
	o.AcyclicValueStructs = c.NeedsAcyclicValueStructs()
	if c.Autobind {
		if c.BoundDir == "" {
			c.BoundDir = "bound"
		}
		o.BoundPkg = po.ImportBase + "/" + c.BoundDir
		o.BoundPkgName = filepath.Base(c.BoundDir)
	}
	s := Generate(o)
	return &Project{Name: po.Name, Cfg: c, Schema: s, YAML: c.YAML(po.Name, po.ImportBase, s)}
}

// Write materialises the project under dir (which must not exist or be empty).
func (p *Project) Write(dir string) error {
	if err := os.MkdirAll(dir, 0o755); err != nil {
		return err
	}
	for _, f := range p.Schema.Files {
		fp := filepath.Join(dir, filepath.FromSlash(f.Name))
		if err := os.MkdirAll(filepath.Dir(fp), 0o755); err != nil {
			return err
		}
		if err := os.WriteFile(fp, []byte(f.Text), 0o644); err != nil {
			return err
		}
	}
	if p.Schema.BoundGo != "" {
		bd := filepath.FromSlash(p.Cfg.BoundDir)
		if err := os.MkdirAll(filepath.Join(dir, bd), 0o755); err != nil {
			return err
		}
		if err := os.WriteFile(filepath.Join(dir, bd, "bound.go"), []byte(p.Schema.BoundGo), 0o644); err != nil {
			return err
		}
	}
	return os.WriteFile(filepath.Join(dir, "gqlgen.yml"), []byte(p.YAML), 0o644)
}
