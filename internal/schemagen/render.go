package schemagen

import (
	"fmt"
	"strings"
)

func alpha(s string) bool {
	if s == "" {
		return false
	}
	for _, c := range s {
		if !(c >= 'a' && c <= 'z' || c >= 'A' && c <= 'Z') {
			return false
		}
	}
	return true
}

func exportedAlpha(s string) bool { return alpha(s) && s[0] >= 'A' && s[0] <= 'Z' }

// goScalar maps a builtin scalar reference to a Go type for the hand-written package.
func (g *gen) goScalar(t *Ref, boundEnums map[string]bool) (string, bool) {
	if t.Of != nil {
		if t.Of.Of != nil {
			return "", false
		}
		e, ok := g.goScalar(t.Of, boundEnums)
		if !ok {
			return "", false
		}
		return "[]" + e, true
	}
	var base string
	switch t.Name {
	case "String", "ID":
		base = "string"
	case "Int":
		base = []string{"int", "int64", "int32"}[g.r.Intn(3)]
	case "Float":
		base = "float64"
	case "Boolean":
		base = "bool"
	default:
		if boundEnums[t.Name] {
			base = t.Name
		} else {
			return "", false
		}
	}
	if !t.NN && g.chance(75) {
		return "*" + base, true
	}
	return base, true
}

// bind writes the hand-written autobind package: a few object structs (fields and methods), one
// input struct, one enum with MarshalGQL/UnmarshalGQL and one enum bound through enum_values.
func (g *gen) bind() {
	var b strings.Builder
	needCtx := false
	var body strings.Builder
	boundEnums := map[string]bool{}

	inUnion := map[string]bool{}
	for _, u := range g.unions {
		for _, m := range u.Members {
			inUnion[m] = true
		}
	}
	// enum with marshal methods
	enumOrder := append([]*Def{}, g.enums...)
	nullableListEnums := map[string]bool{}
	if g.o.Avoid["enum_values_list"] {
		nullableListEnums = g.enumsInNullableElementLists()
	}
	if g.o.Inject == "enum_values_bind" || g.o.Inject == "enum_values_list" { // bind only the injected enum
		var rest []*Def
		var kf *Def
		for _, e := range enumOrder {
			if e.Name == "KfLevel" {
				kf = e
			} else {
				rest = append(rest, e)
			}
		}
		enumOrder = rest
		boundEnums["-"] = true // skip the marshaler enum: bind only KfLevel through enum_values
		if kf != nil {
			enumOrder = []*Def{kf}
		}
	}
	for _, e := range enumOrder {
		if !exportedAlpha(e.Name) {
			continue
		}
		if len(boundEnums) == 0 {
			fmt.Fprintf(&body, "// %s is bound by autobind (string enum with its own (un)marshaler).\ntype %s string\n\n", e.Name, e.Name)
			fmt.Fprintf(&body, "func (e %s) MarshalGQL(w io.Writer) { fmt.Fprint(w, strconv.Quote(string(e))) }\n\n", e.Name)
			fmt.Fprintf(&body, "func (e *%s) UnmarshalGQL(v any) error {\n\ts, ok := v.(string)\n\tif !ok {\n\t\treturn fmt.Errorf(\"enums must be strings\")\n\t}\n\t*e = %s(s)\n\treturn nil\n}\n\n", e.Name, e.Name)
			e.Bound = true
			boundEnums[e.Name] = true
			g.feat("autobind_enum_marshaler")
			continue
		}
		if len(boundEnums) == 1 && nullableListEnums[e.Name] {
			continue // known finding: enum_values binding of an enum used as [E] (nullable elements)
		}
		if len(boundEnums) == 1 && !g.o.Avoid["enum_values_bind"] {
			// typed int enum bound value by value (docs/content/recipes/enum.md)
			fmt.Fprintf(&body, "// %s is bound through models.%s.enum_values.\ntype %s int\n\nconst (\n", e.Name, e.Name, e.Name)
			var y strings.Builder
			fmt.Fprintf(&y, "  %s:\n    model: %s.%s\n    enum_values:\n", e.Name, g.o.BoundPkg, e.Name)
			for i, v := range e.Values {
				fmt.Fprintf(&body, "\t%sConst%d %s = %d\n", e.Name, i, e.Name, i+1)
				fmt.Fprintf(&y, "      %s:\n        value: %s.%sConst%d\n", v.Name, g.o.BoundPkg, e.Name, i)
			}
			body.WriteString(")\n\n")
			g.s.EnumBind[e.Name] = y.String()
			e.Bound = true
			g.feat("autobind_enum_values")
			break
		}
	}
	delete(boundEnums, "-")
	fieldEnums := map[string]bool{}
	for _, e := range g.enums {
		if e.Bound && g.s.EnumBind[e.Name] == "" {
			fieldEnums[e.Name] = true
		}
	}
	nb := 0
	for _, d := range g.objects {
		if nb >= 3 || len(d.Impl) > 0 || inUnion[d.Name] || !exportedAlpha(d.Name) || len(d.Fields) == 0 {
			continue
		}
		// a type sharing its normalised name with another type would be ambiguous for autobind
		amb := false
		for _, o := range g.s.Defs {
			if o != d && norm(o.Name) == norm(d.Name) {
				amb = true
			}
		}
		if amb {
			continue
		}
		var fields, methods strings.Builder
		n := 0
		var twin *Field
		for _, f := range d.Fields {
			if len(f.Args) > 0 || !alpha(f.Name) || strings.Contains(strings.Join(f.Dirs, " "), "forceResolver") {
				continue
			}
			gt, ok := g.goScalar(f.T, fieldEnums)
			if !ok {
				continue
			}
			n++
			switch g.r.Intn(5) {
			case 0:
				fmt.Fprintf(&methods, "func (x *%s) %s() %s { var z %s; return z }\n\n", d.Name, UcFirst(f.Name), gt, gt)
				g.feat("autobind_method")
			case 1:
				needCtx = true
				fmt.Fprintf(&methods, "func (x *%s) %s(ctx context.Context) (%s, error) { var z %s; return z, nil }\n\n", d.Name, UcFirst(f.Name), gt, gt)
				g.feat("autobind_method_ctx_err")
			default:
				fmt.Fprintf(&fields, "\t%s %s\n", UcFirst(f.Name), gt)
				g.feat("autobind_struct_field")
				// a second schema field that binds to the same Go field (the binder ignores case and
				// underscores: createdAt / created_at); chosen without consuming randomness
				if alias := f.Name[:1] + "_" + f.Name[1:]; len(f.Name) >= 3 && len(f.Name)%3 == 0 && twin == nil {
					clash := false
					for _, o := range d.Fields {
						if o.Name == alias {
							clash = true
						}
					}
					if !clash {
						twin = &Field{Name: alias, T: f.T.clone(), Desc: f.Desc}
						g.feat("two_schema_fields_one_go_field")
					}
				}
			}
		}
		if twin != nil {
			d.Fields = append(d.Fields, twin)
		}
		if n == 0 {
			continue
		}
		fmt.Fprintf(&body, "// %s is bound by autobind; schema fields without a counterpart become resolvers.\ntype %s struct {\n%s}\n\n%s", d.Name, d.Name, fields.String(), methods.String())
		d.Bound = true
		nb++
		g.feat("autobind_object")
	}
	for _, d := range g.inputs {
		if !exportedAlpha(d.Name) {
			continue
		}
		ok := true
		var fields strings.Builder
		for _, f := range d.Fields {
			gt, k := g.goScalar(f.T, fieldEnums)
			if !k || !alpha(f.Name) {
				ok = false
				break
			}
			fmt.Fprintf(&fields, "\t%s %s\n", UcFirst(f.Name), gt)
		}
		if !ok {
			continue
		}
		fmt.Fprintf(&body, "// %s is an input bound by autobind.\ntype %s struct {\n%s}\n\n", d.Name, d.Name, fields.String())
		d.Bound = true
		g.feat("autobind_input")
		break
	}
	fmt.Fprintf(&b, "// Package %s is the hand-written model package of this project (autobind target).\npackage %s\n\nimport (\n", g.o.BoundPkgName, g.o.BoundPkgName)
	if needCtx {
		b.WriteString("\t\"context\"\n")
	}
	b.WriteString("\t\"fmt\"\n\t\"io\"\n\t\"strconv\"\n)\n\nvar _ = fmt.Sprint\nvar _ io.Writer\nvar _ = strconv.Quote\n\n")
	b.WriteString(body.String())
	g.s.BoundGo = b.String()
}

func renderDirs(ds []string) string {
	if len(ds) == 0 {
		return ""
	}
	return " " + strings.Join(ds, " ")
}

func indent(s, pre string) string {
	if s == "" {
		return ""
	}
	lines := strings.Split(strings.TrimRight(s, "\n"), "\n")
	for i := range lines {
		lines[i] = pre + lines[i]
	}
	return strings.Join(lines, "\n") + "\n"
}

func renderArgs(args []*Arg) string {
	if len(args) == 0 {
		return ""
	}
	multi := false
	var parts []string
	for _, a := range args {
		s := a.Name + ": " + a.T.String()
		if a.Def != "" {
			s += " = " + a.Def
		}
		s += renderDirs(a.Dirs)
		if a.Desc != "" {
			multi = true
			s = strings.TrimRight(indent(a.Desc, ""), "\n") + "\n" + s
		}
		parts = append(parts, s)
	}
	if multi || len(parts) > 2 {
		var b strings.Builder
		b.WriteString("(\n")
		for _, p := range parts {
			b.WriteString(indent(p, "    "))
		}
		b.WriteString("  )")
		return b.String()
	}
	return "(" + strings.Join(parts, ", ") + ")"
}

func renderField(f *Field, input bool) string {
	var b strings.Builder
	b.WriteString(indent(f.Desc, "  "))
	b.WriteString("  " + f.Name + renderArgs(f.Args) + ": " + f.T.String())
	if input && f.Def != "" {
		b.WriteString(" = " + f.Def)
	}
	b.WriteString(renderDirs(f.Dirs) + "\n")
	return b.String()
}

func (g *gen) render() {
	nf := g.o.Files
	texts := make([]strings.Builder, nf)
	usesGo := map[string]bool{}
	note := func(ds []string) {
		for _, d := range ds {
			for _, n := range []string{"goField", "goModel", "goTag", "goExtraField", "goEnum"} {
				if strings.HasPrefix(d, "@"+n) {
					usesGo[n] = true
				}
			}
		}
	}

	// gqlgen's own schema directives on generated (not bound) models
	k := 0
	for _, d := range g.s.Defs {
		if d.Bound || d.Root != "" {
			continue
		}
		if (d.Kind == "object" || d.Kind == "input") && g.chance(10) {
			k++
			d.Dirs = append(d.Dirs, fmt.Sprintf(`@goExtraField(name: "Extra%d", type: "%s", description: "extra")`, k, g.pick([]string{"int", "*string", "[]string", "[]*int64", "time.Time"})))
			if strings.Contains(d.Dirs[len(d.Dirs)-1], "time.Time") {
				d.Dirs[len(d.Dirs)-1] = fmt.Sprintf(`@goExtraField(name: "Extra%d", type: "time.Time")`, k)
			}
			g.feat("goExtraField")
		}
		if d.Kind == "object" || d.Kind == "input" {
			for _, f := range d.Fields {
				if g.chance(5) {
					f.Dirs = append(f.Dirs, fmt.Sprintf(`@goTag(key: "yaml", value: "%s,omitempty")`, strings.ToLower(f.Name)))
					if g.chance(40) {
						f.Dirs = append(f.Dirs, `@goTag(key: "db")`)
					}
					g.feat("goTag")
				}
				if len(d.Impl) == 0 && g.chance(4) {
					k++
					f.Dirs = append(f.Dirs, fmt.Sprintf(`@goField(name: "Renamed%d")`, k))
					g.feat("goField_name")
				}
				if d.Kind == "input" && !f.T.NN && g.chance(6) {
					f.Dirs = append(f.Dirs, fmt.Sprintf(`@goField(omittable: %v)`, g.chance(70)))
					g.feat("goField_omittable")
				}
			}
		}
	}
	for _, d := range g.s.Defs {
		note(d.Dirs)
		for _, f := range d.Fields {
			note(f.Dirs)
		}
	}

	// file assignment
	for _, d := range g.s.Defs {
		d.file = g.r.Intn(nf)
	}
	for _, d := range g.dirs {
		if d.Name == "kfOpA" || d.Name == "kfOpB" { // injected witness: files fixed
			continue
		}
		d.file = 0
		if g.chance(30) {
			d.file = g.r.Intn(nf)
		}
		if g.o.Avoid["exec_directive_files"] {
			// known finding: follow-schema emits one middleware per schema file declaring a
			// directive for QUERY / MUTATION / SUBSCRIPTION / FIELD: keep those in one file
			for _, l := range d.Locs {
				if l == "QUERY" || l == "MUTATION" || l == "SUBSCRIPTION" || l == "FIELD" {
					d.file = 0
				}
			}
		}
	}

	// scalars
	for _, s := range g.scal {
		f := g.r.Intn(nf)
		line := "scalar " + s.name
		inline := false
		if !s.unbound && g.chance(25) {
			if len(s.models) == 1 {
				line += fmt.Sprintf(` @goModel(model: %q)`, s.models[0])
			} else {
				qs := []string{}
				for _, m := range s.models {
					qs = append(qs, fmt.Sprintf("%q", m))
				}
				line += " @goModel(models: [" + strings.Join(qs, ", ") + "])"
			}
			inline = true
			usesGo["goModel"] = true
			g.feat("scalar_bound_by_goModel")
		}
		if s.specURL != "" {
			line += fmt.Sprintf(` @specifiedBy(url: %q)`, s.specURL)
			g.feat("specifiedBy")
		}
		line += renderDirs(g.applyDirs("SCALAR", 20))
		texts[f].WriteString(line + "\n")
		if !s.unbound {
			g.s.Scalars = append(g.s.Scalars, ScalarBinding{Name: s.name, Models: s.models, Inline: inline})
		} else {
			g.feat("scalar_unbound")
		}
	}

	// gqlgen directive declarations (docs/content/config.md: "you first need to define them")
	if usesGo["goModel"] {
		texts[0].WriteString("directive @goModel(model: String, models: [String!], forceGenerate: Boolean) on OBJECT | INPUT_OBJECT | SCALAR | ENUM | INTERFACE | UNION\n")
	}
	if usesGo["goField"] {
		texts[0].WriteString("directive @goField(forceResolver: Boolean, name: String, omittable: Boolean, type: String) on INPUT_FIELD_DEFINITION | FIELD_DEFINITION\n")
	}
	if usesGo["goTag"] {
		texts[0].WriteString("directive @goTag(key: String!, value: String) on INPUT_FIELD_DEFINITION | FIELD_DEFINITION\n")
	}
	if usesGo["goExtraField"] {
		texts[0].WriteString("directive @goExtraField(name: String, type: String!, overrideTags: String, description: String) repeatable on OBJECT | INPUT_OBJECT\n")
	}
	for _, d := range g.dirs {
		var b strings.Builder
		b.WriteString(d.Desc)
		b.WriteString("directive @" + d.Name + renderArgs(d.Args))
		if d.Repeatable {
			b.WriteString(" repeatable")
		}
		b.WriteString(" on " + strings.Join(d.Locs, " | ") + "\n")
		texts[d.file].WriteString(b.String())
	}

	rn := g.s.RootNames
	if rn[0] != "Query" || g.chance(15) {
		var b strings.Builder
		b.WriteString("schema {\n  query: " + rn[0] + "\n")
		if g.byN[rn[1]] != nil {
			b.WriteString("  mutation: " + rn[1] + "\n")
		}
		if g.byN[rn[2]] != nil {
			b.WriteString("  subscription: " + rn[2] + "\n")
		}
		b.WriteString("}\n")
		texts[0].WriteString(b.String())
		g.feat("schema_definition")
	}

	kw := map[string]string{"object": "type", "input": "input", "interface": "interface", "enum": "enum", "union": "union"}
	for _, d := range g.s.Defs {
		// split into base + extension chunks
		nItems := len(d.Fields)
		if d.Kind == "enum" {
			nItems = len(d.Values)
		}
		if d.Kind == "union" {
			nItems = len(d.Members)
		}
		chunks := 1
		pct := 20
		if d.Root != "" {
			pct = 75
		}
		if nItems >= 2 && g.chance(pct) {
			chunks = 2
			if nItems >= 4 && g.chance(40) {
				chunks = 3
			}
		}
		cut := make([]int, 0, chunks+1) // boundaries
		cut = append(cut, 0)
		for c := 1; c < chunks; c++ {
			lo := cut[c-1] + 1
			hi := nItems - (chunks - c)
			cut = append(cut, lo+g.r.Intn(hi-lo+1))
		}
		cut = append(cut, nItems)
		for c := 0; c < chunks; c++ {
			file := d.file
			var b strings.Builder
			head := kw[d.Kind] + " " + d.Name
			if c > 0 {
				file = g.r.Intn(nf)
				head = "extend " + head
				g.feat("extend_" + d.Kind)
				if file != d.file {
					g.feat("extension_in_other_file")
				}
			} else {
				b.WriteString(d.Desc)
				if len(d.Impl) > 0 {
					head += " implements " + strings.Join(d.Impl, " & ")
				}
				head += renderDirs(d.Dirs)
			}
			lo, hi := cut[c], cut[c+1]
			switch d.Kind {
			case "union":
				b.WriteString(head + " = " + strings.Join(d.Members[lo:hi], " | ") + "\n")
			case "enum":
				b.WriteString(head + " {\n")
				for _, v := range d.Values[lo:hi] {
					b.WriteString(indent(v.Desc, "  "))
					b.WriteString("  " + v.Name + renderDirs(v.Dirs) + "\n")
				}
				b.WriteString("}\n")
			default:
				b.WriteString(head + " {\n")
				for _, f := range d.Fields[lo:hi] {
					b.WriteString(renderField(f, d.Kind == "input"))
				}
				b.WriteString("}\n")
			}
			texts[file].WriteString("\n" + b.String())
		}
	}
	names := []string{"schema", "types", "more_types", "extra-types", "z.last", "Upper"}
	for i := 0; i < nf; i++ {
		n := names[i%len(names)]
		if i >= len(names) {
			n += fmt.Sprint(i)
		}
		// file names spelled only with letters of the extension (follow-schema derives the name of the
		// generated file from the schema file's name minus its extension); chosen without consuming
		// randomness so that every other aspect of the project stays as it was
		if k := (nf*7 + len(texts[0].String())) % 5; nf >= 2 && i == nf-1 && k < 3 {
			n = []string{"graph", "a", "hal"}[k]
			g.feat("schema_file_named_with_extension_letters")
		}
		ext := ".graphql"
		if i == 0 && g.o.FirstFileDir != "" {
			n = g.o.FirstFileDir + "/" + n
			g.feat("schema_sources_inside_and_outside_exec_dir")
		} else if g.o.Dir != "" {
			n = g.o.Dir + "/" + n
		}
		txt := texts[i].String()
		if strings.TrimSpace(txt) == "" {
			txt = "# empty schema file\n"
			g.feat("empty_schema_file")
		}
		g.s.Files = append(g.s.Files, File{Name: n + ext, Text: txt})
	}
}
