// Package diffrun is the shared differential loop: run one (operation, plan) on the real generated
// server and on the reference executor and compare data, errors and invocations.
package diffrun

import (
	"context"
	"encoding/json"
	"fmt"
	"strings"
	"time"

	"github.com/vektah/gqlparser/v2/ast"
	"github.com/vektah/gqlparser/v2/parser"
	"github.com/vektah/gqlparser/v2/validator"

	"verif/internal/drive"
	"verif/internal/opgen"
	"verif/internal/ref"
	"verif/internal/sjson"
	"verif/internal/univ"
)

type Case struct {
	Probe  string         `json:"probe"`
	OpSeed int64          `json:"op_seed"`
	Kind   string         `json:"kind"`
	Plan   univ.SeedPlan  `json:"plan"`
	Query  string         `json:"query"`
	OpName string         `json:"operationName,omitempty"`
	Vars   map[string]any `json:"variables,omitempty"`
	Extra  map[string]any `json:"extra,omitempty"`
}

// DecodeVars round-trips variables through JSON with UseNumber so both sides see what a transport
// would deliver.
func DecodeVars(v map[string]any) map[string]any {
	if v == nil {
		return nil
	}
	b, _ := json.Marshal(v)
	var out map[string]any
	d := json.NewDecoder(strings.NewReader(string(b)))
	d.UseNumber()
	d.Decode(&out)
	return out
}

// CopyJSON deep-copies a decoded JSON tree (maps, slices; scalars are immutable).
func CopyJSON(v map[string]any) map[string]any {
	if v == nil {
		return nil
	}
	return copyAny(v).(map[string]any)
}

func copyAny(v any) any {
	switch t := v.(type) {
	case map[string]any:
		m := make(map[string]any, len(t))
		for k, e := range t {
			m[k] = copyAny(e)
		}
		return m
	case []any:
		l := make([]any, len(t))
		for i, e := range t {
			l[i] = copyAny(e)
		}
		return l
	}
	return v
}

// GenValid generates an operation and returns its parsed document, or nil if gqlparser rejects it.
func GenValid(schema *ast.Schema, seed int64, kind ast.Operation, cfg opgen.Config) (*opgen.Op, *ast.QueryDocument, string) {
	op := opgen.Generate(schema, seed, kind, cfg)
	doc, perr := parser.ParseQuery(&ast.Source{Input: op.Query})
	if perr != nil {
		return op, nil, "unparsable: " + perr.Error()
	}
	if errs := validator.Validate(schema, doc); len(errs) > 0 {
		return op, nil, "invalid: " + errs[0].Message
	}
	return op, doc, ""
}

type Outcome struct {
	Want     *ref.Result
	Got      *drive.Real
	Mismatch string // "", "data", "errors", "invocations", "payloads", "refusal", "json", "timeout"
	Detail   string
	DirOrder string // "outer-first" or "inner-first" (which directive nesting order matched)
}

// Compare runs the case on both sides. timeout is a watchdog only (Mismatch "timeout" must be
// treated as inconclusive by callers unless they have stable-blocked evidence).
func Compare(ctx context.Context, env *univ.Env, srv *drive.Server, doc *ast.QueryDocument, query, opName string, vars map[string]any, plan univ.Plan, run *univ.Run, timeout time.Duration) *Outcome {
	omit, _ := env.Probe.Options["nullable_input_omittable"].(bool)
	o := &Outcome{DirOrder: "outer-first"}
	// gqlparser's VariableValues coerces the caller's variables map in place: give each side its
	// own copy so a case can be repeated (other plans, fault points) with pristine input.
	o.Want = ref.Execute(env, plan, doc, opName, CopyJSON(vars), ref.Options{Omittable: omit})
	if run == nil {
		run = &univ.Run{Plan: plan}
	}
	o.Got = srv.Run(ctx, run, query, opName, CopyJSON(vars), timeout)
	if o.Got.TimedOut {
		o.Mismatch, o.Detail = "timeout", "response function did not return within the watchdog"
		return o
	}
	if o.Want.RequestError != "" || len(o.Got.RequestErrors) > 0 {
		if (o.Want.RequestError != "") != (len(o.Got.RequestErrors) > 0) {
			o.Mismatch = "refusal"
			o.Detail = fmt.Sprintf("reference: %q real: %q", o.Want.RequestError, o.Got.RequestErrors)
		}
		return o
	}
	if len(o.Got.Payloads) != 1 {
		o.Mismatch, o.Detail = "payloads", fmt.Sprintf("expected exactly one payload, got %d", len(o.Got.Payloads))
		return o
	}
	pl := o.Got.Payloads[0]
	if !pl.ParseOK || pl.Data == nil {
		o.Mismatch, o.Detail = "json", "data member absent or not valid JSON: "+string(pl.Raw)
		return o
	}
	match := func(w *ref.Result) (string, string) {
		if d := sjson.Diff(w.Data, pl.Data, true, "data"); d != "" {
			return "data", d
		}
		if d := drive.DiffErrors(w.Errors, pl.Errors); d != "" {
			return "errors", d
		}
		if d := drive.DiffStrings(w.Invocations, o.Got.Invocations); d != "" {
			return "invocations", d
		}
		// every directive the operation applies is invoked (the same multiset of (path, directive)
		// calls), also when its outcome happens to be "pass" and leaves no other trace
		if d := drive.DiffStrings(execDirCalls(w.DirCalls), execDirCalls(o.Got.DirCalls)); d != "" {
			return "directive calls", d
		}
		return "", ""
	}
	what, d := match(o.Want)
	if what != "" && o.Want.Stats.Directives > 0 {
		alt := ref.Execute(env, plan, doc, opName, CopyJSON(vars), ref.Options{Omittable: omit, DirInnerFirst: true})
		if w2, _ := match(alt); w2 == "" {
			o.Want = alt
			o.DirOrder = "inner-first"
			return o
		}
	}
	o.Mismatch, o.Detail = what, d
	return o
}

// execDirCalls drops the calls of argument / input-field directives (universal name prefix "chk"):
// they run during argument coercion, which the reference does not model call by call.
func execDirCalls(calls []string) []string {
	var out []string
	for _, c := range calls {
		if i := strings.IndexByte(c, '|'); i >= 0 && strings.HasPrefix(c[i+1:], "chk") {
			continue
		}
		out = append(out, c)
	}
	return out
}

// Describe renders both sides for a replay file.
func (o *Outcome) Describe() map[string]any {
	m := map[string]any{"mismatch": o.Mismatch, "detail": o.Detail}
	if o.Want != nil {
		if o.Want.Data != nil {
			m["ref_data"] = o.Want.Data.Render()
		}
		m["ref_errors"] = o.Want.Errors
		m["ref_request_error"] = o.Want.RequestError
	}
	if o.Got != nil {
		if len(o.Got.Payloads) > 0 {
			m["real_data"] = string(o.Got.Payloads[0].Raw)
			m["real_errors"] = o.Got.Payloads[0].Errors
		}
		m["real_request_errors"] = o.Got.RequestErrors
		if o.Want != nil {
			m["invocation_diff"] = drive.DiffStrings(o.Want.Invocations, o.Got.Invocations)
		}
	}
	return m
}

// NonTrivial reports whether the reference run exercised something the execution properties name.
func NonTrivial(w *ref.Result) bool {
	st := w.Stats
	return st.Fragments+st.TypeCondSkips+st.SkipInclude+st.Merged+st.ListDepthMax+len(w.Errors)+st.DirBlocked > 0
}
