// Package gdump parses runtime goroutine dumps and filters them by frame patterns: the monitor
// behind "terminates" (stable blocked state) and "leaves nothing running" (goroutine leak).
package gdump

import (
	"regexp"
	"runtime"
	"sort"
	"strconv"
	"strings"
	"time"
)

type G struct {
	ID     int64
	State  string
	Frames []string // function names, innermost first
	Text   string
}

var headRe = regexp.MustCompile(`^goroutine (\d+) \[([^\]]*)\]:`)

// All returns every goroutine of the process.
func All() []G {
	buf := make([]byte, 1<<20)
	for {
		n := runtime.Stack(buf, true)
		if n < len(buf) {
			buf = buf[:n]
			break
		}
		buf = make([]byte, 2*len(buf))
	}
	var out []G
	for _, blk := range strings.Split(string(buf), "\n\n") {
		blk = strings.TrimSpace(blk)
		lines := strings.Split(blk, "\n")
		m := headRe.FindStringSubmatch(lines[0])
		if m == nil {
			continue
		}
		id, _ := strconv.ParseInt(m[1], 10, 64)
		g := G{ID: id, State: m[2], Text: blk}
		for _, l := range lines[1:] {
			if strings.HasPrefix(l, "\t") || strings.HasPrefix(l, "created by ") {
				if strings.HasPrefix(l, "created by ") {
					g.Frames = append(g.Frames, "created by "+strings.Fields(strings.TrimPrefix(l, "created by "))[0])
				}
				continue
			}
			fn := l
			if i := strings.LastIndex(fn, "("); i > 0 {
				fn = fn[:i]
			}
			g.Frames = append(g.Frames, fn)
		}
		out = append(out, g)
	}
	return out
}

// Match returns goroutines having at least one frame containing one of the patterns and no frame
// containing one of the exclusions.
func Match(gs []G, patterns, exclude []string) []G {
	var out []G
	for _, g := range gs {
		hit := false
		for _, f := range g.Frames {
			for _, p := range patterns {
				if strings.Contains(f, p) {
					hit = true
				}
			}
		}
		if !hit {
			continue
		}
		bad := false
		for _, f := range g.Frames {
			for _, x := range exclude {
				if strings.Contains(f, x) {
					bad = true
				}
			}
		}
		if !bad {
			out = append(out, g)
		}
	}
	return out
}

// Signature is a schedule-independent summary of a set of goroutines (state + frames).
func Signature(gs []G) string {
	var parts []string
	for _, g := range gs {
		st := g.State
		if i := strings.Index(st, ","); i >= 0 {
			st = st[:i] // drop "N minutes"
		}
		parts = append(parts, strconv.FormatInt(g.ID, 10)+":"+st+":"+strings.Join(g.Frames, "<"))
	}
	sort.Strings(parts)
	return strings.Join(parts, "\n")
}

// Blocked reports whether every goroutine of gs is parked in a blocking state.
func Blocked(gs []G) bool {
	for _, g := range gs {
		st := g.State
		if i := strings.Index(st, ","); i >= 0 {
			st = st[:i]
		}
		switch st {
		case "chan send", "chan receive", "select", "semacquire", "sync.WaitGroup.Wait", "sync.Mutex.Lock", "sync.Cond.Wait", "chan send (nil chan)", "chan receive (nil chan)", "select (no cases)":
		default:
			return false
		}
	}
	return true
}

// WaitGone polls until no goroutine matches (returns nil) or the budget is used up; in the latter
// case it returns the survivors only if two dumps `settle` apart are identical and blocked
// (stable), else (nil, false) meaning "inconclusive".
func WaitGone(patterns, exclude []string, ignore map[int64]bool, budget, settle time.Duration) (survivors []G, stable bool) {
	deadline := time.Now().Add(budget)
	filter := func() []G {
		var out []G
		for _, g := range Match(All(), patterns, exclude) {
			if !ignore[g.ID] {
				out = append(out, g)
			}
		}
		return out
	}
	step := 200 * time.Microsecond
	for {
		gs := filter()
		if len(gs) == 0 {
			return nil, true
		}
		if time.Now().After(deadline) {
			a := Signature(gs)
			time.Sleep(settle)
			gs2 := filter()
			if len(gs2) == 0 {
				return nil, true
			}
			if Signature(gs2) == a && Blocked(gs2) {
				return gs2, true
			}
			return gs2, false
		}
		time.Sleep(step)
		if step < 20*time.Millisecond {
			step *= 2
		}
	}
}

// Persisting watches goroutines that were still matching but not in a stable blocked state: it
// polls until none of them exists any more (returns nil) or `window` has passed, and then returns
// those that existed at EVERY poll and still match the patterns - goroutines that keep running
// (spinning, or cycling through short waits) long after the work they were started for has ended.
func Persisting(gs []G, patterns, exclude []string, window, every time.Duration) []G {
	alive := map[int64]bool{}
	for _, g := range gs {
		alive[g.ID] = true
	}
	var last []G
	deadline := time.Now().Add(window)
	for {
		cur := map[int64]G{}
		for _, g := range Match(All(), patterns, exclude) {
			cur[g.ID] = g
		}
		last = last[:0]
		for id := range alive {
			if g, ok := cur[id]; ok {
				last = append(last, g)
			} else {
				delete(alive, id)
			}
		}
		if len(alive) == 0 {
			return nil
		}
		if time.Now().After(deadline) {
			return last
		}
		time.Sleep(every)
	}
}
