// Package kids runs a check's case list in crash-isolated child processes (DESIGN §2.6: "a crash is
// an observation, not the end of the check") and merges what the children observed into the
// parent's ev.Reporter.
//
// Protocol. The worker binary re-executes itself with KIDS_BATCH=<i> KIDS_OUT=<file>
// KIDS_PROGRESS=<file> [KIDS_PREV=<progress file of the crashed first attempt>]. The child calls
// kids.Child() to obtain an *Out; it brackets every case with Begin(idx)/End(idx) and records
// observations through Out (Count, Distinct, Violate, Sample, Inconclusive, Eval). Observations are
// buffered per case and appended to KIDS_OUT as JSON lines when the case ends, so everything
// observed before a crash survives it. Begin appends "B <idx>" to the progress file BEFORE the
// case runs; after a crash the parent knows which cases were in flight, reports the crash, and
// re-runs the batch (up to MaxAttempts) skipping the finished cases and any case that was in
// flight in two crashed attempts.
package kids

import (
	"bufio"
	"bytes"
	"context"
	"encoding/json"
	"fmt"
	"os"
	"os/exec"
	"path/filepath"
	"regexp"
	"sort"
	"strconv"
	"strings"
	"sync"
	"syscall"
	"time"

	"verif/internal/ev"
)

type line struct {
	K      string `json:"k"` // count | distinct | violate | sample | inconclusive | eval | set
	Key    string `json:"key,omitempty"`
	N      int64  `json:"n,omitempty"`
	Member string `json:"m,omitempty"`
	Detail any    `json:"d,omitempty"`
}

// Out is the child's side of the channel to the parent.
type Out struct {
	Batch int
	mu    sync.Mutex
	f     *os.File
	prog  *os.File
	skip  map[int]bool
	pend  map[int][]line // per case buffer; -1 = not attributed to a case
}

// IsChild reports whether this process was started by RunBatches.
func IsChild() bool { return os.Getenv("KIDS_BATCH") != "" }

// Child opens the channel to the parent (call only when IsChild()).
func Child() *Out {
	b, _ := strconv.Atoi(os.Getenv("KIDS_BATCH"))
	o := &Out{Batch: b, skip: map[int]bool{}, pend: map[int][]line{}}
	var err error
	if o.f, err = os.OpenFile(os.Getenv("KIDS_OUT"), os.O_CREATE|os.O_WRONLY|os.O_APPEND, 0o644); err != nil {
		fmt.Fprintln(os.Stderr, "kids: cannot open out file:", err)
		os.Exit(3)
	}
	if o.prog, err = os.OpenFile(os.Getenv("KIDS_PROGRESS"), os.O_CREATE|os.O_WRONLY|os.O_APPEND, 0o644); err != nil {
		fmt.Fprintln(os.Stderr, "kids: cannot open progress file:", err)
		os.Exit(3)
	}
	if prev := os.Getenv("KIDS_PREV"); prev != "" {
		// skip what finished in an earlier (crashed) attempt, and what was in flight in two of them
		if pb, err := os.ReadFile(prev); err == nil {
			open := map[int]int{}
			for _, l := range strings.Split(string(pb), "\n") {
				fs := strings.Fields(l)
				if len(fs) != 2 {
					continue
				}
				n, err := strconv.Atoi(fs[1])
				if err != nil {
					continue
				}
				switch fs[0] {
				case "B":
					open[n]++
				case "E":
					o.skip[n] = true
				}
			}
			for n, k := range open {
				if k >= 2 {
					o.skip[n] = true
				}
			}
		}
	}
	return o
}

// Skip reports whether a case was already started by a previous (crashed) attempt of this batch.
func (o *Out) Skip(idx int) bool { return o.skip[idx] }

// Begin marks a case as in flight (durably, before it runs).
func (o *Out) Begin(idx int) {
	o.mu.Lock()
	fmt.Fprintf(o.prog, "B %d\n", idx)
	o.mu.Unlock()
}

// End flushes everything the case observed.
func (o *Out) End(idx int) {
	o.mu.Lock()
	defer o.mu.Unlock()
	o.flushLocked(idx)
	fmt.Fprintf(o.prog, "E %d\n", idx)
}

func (o *Out) flushLocked(idx int) {
	ls := o.pend[idx]
	delete(o.pend, idx)
	if len(ls) == 0 {
		return
	}
	var buf bytes.Buffer
	enc := json.NewEncoder(&buf)
	for _, l := range ls {
		enc.Encode(l)
	}
	o.f.Write(buf.Bytes())
}

// Close flushes unattributed observations.
func (o *Out) Close() {
	o.mu.Lock()
	for k := range o.pend {
		o.flushLocked(k)
	}
	o.f.Close()
	o.prog.Close()
	o.mu.Unlock()
}

func (o *Out) add(idx int, l line) {
	o.mu.Lock()
	o.pend[idx] = append(o.pend[idx], l)
	o.mu.Unlock()
}

// C returns a per-case recorder.
func (o *Out) C(idx int) *Case { return &Case{o: o, idx: idx} }

// Case records observations attributed to one case (flushed by End).
type Case struct {
	o   *Out
	idx int
}

func (c *Case) Count(key string, n int64) {
	c.o.mu.Lock()
	ls := c.o.pend[c.idx]
	for i := range ls {
		if ls[i].K == "count" && ls[i].Key == key {
			ls[i].N += n
			c.o.mu.Unlock()
			return
		}
	}
	c.o.pend[c.idx] = append(ls, line{K: "count", Key: key, N: n})
	c.o.mu.Unlock()
}
func (c *Case) Max(key string, n int64) { c.o.add(c.idx, line{K: "max", Key: key, N: n}) }
func (c *Case) Distinct(set, member string) {
	c.o.add(c.idx, line{K: "distinct", Key: set, Member: member})
}
func (c *Case) Violate(sig string, detail any) {
	c.o.add(c.idx, line{K: "violate", Key: sig, Detail: detail})
}
func (c *Case) Sample(s any)               { c.o.add(c.idx, line{K: "sample", Detail: s}) }
func (c *Case) Inconclusive(reason string) { c.o.add(c.idx, line{K: "inconclusive", Key: reason}) }
func (c *Case) Eval(n int64)               { c.o.add(c.idx, line{K: "eval", N: n}) }

// MaxAttempts bounds how often one batch is (re)started after crashes.
var MaxAttempts = 8

// Crash describes a child that died.
type Crash struct {
	Batch    int
	ExitCode int
	Signal   string
	Headline string   // "panic: ..." / "fatal error: ..." line
	Frames   []string // function names of the crashing goroutine, innermost first
	InFlight []int    // case indexes begun and not ended
	Stderr   string   // tail
	TimedOut bool
}

// Totals is what the parent gets back.
type Totals struct {
	Evals   int64
	Crashes []Crash
	Max     map[string]int64
}

var frameRe = regexp.MustCompile(`^([^\s(][^\s]*)\(`)

func parseCrash(stderr string) (head string, frames []string) {
	lines := strings.Split(stderr, "\n")
	start := -1
	for i, l := range lines {
		if strings.HasPrefix(l, "panic: ") || strings.HasPrefix(l, "fatal error: ") {
			head = l
			start = i
			break
		}
	}
	if start < 0 {
		return "", nil
	}
	// first goroutine block after the headline
	i := start
	for i < len(lines) && !strings.HasPrefix(lines[i], "goroutine ") {
		i++
	}
	i++
	for ; i < len(lines); i++ {
		l := lines[i]
		if strings.TrimSpace(l) == "" {
			break
		}
		if strings.HasPrefix(l, "\t") || strings.HasPrefix(l, "created by") {
			continue
		}
		if m := frameRe.FindStringSubmatch(l); m != nil {
			frames = append(frames, m[1])
		}
	}
	return head, frames
}

func inFlight(progress string) []int {
	b, err := os.ReadFile(progress)
	if err != nil {
		return nil
	}
	open := map[int]bool{}
	for _, l := range strings.Split(string(b), "\n") {
		fs := strings.Fields(l)
		if len(fs) != 2 {
			continue
		}
		n, err := strconv.Atoi(fs[1])
		if err != nil {
			continue
		}
		if fs[0] == "B" {
			open[n] = true
		} else if fs[0] == "E" {
			delete(open, n)
		}
	}
	var out []int
	for n := range open {
		out = append(out, n)
	}
	sort.Ints(out)
	return out
}

func tail(s string, n int) string {
	if len(s) <= n {
		return s
	}
	return s[len(s)-n:]
}

// RunBatches runs nBatches children (at most parallel at a time), merges their observations into
// rep and returns the totals. A child that crashes is reported in Totals.Crashes (the caller decides
// the verdict) and its batch is re-run once without the in-flight cases. timeout is the per-child
// watchdog; on expiry the child gets SIGQUIT (goroutine dump in its stderr) and the crash record
// has TimedOut set.
func RunBatches(rep *ev.Reporter, tag string, nBatches, parallel int, timeout time.Duration) Totals {
	dir := filepath.Join(ev.Root, "work", "tmp", fmt.Sprintf("%s-%d", tag, os.Getpid()))
	os.MkdirAll(dir, 0o755)
	defer os.RemoveAll(dir)
	var tot Totals
	tot.Max = map[string]int64{}
	var mu sync.Mutex
	sem := make(chan struct{}, parallel)
	var wg sync.WaitGroup
	for b := 0; b < nBatches; b++ {
		wg.Add(1)
		go func(b int) {
			defer wg.Done()
			sem <- struct{}{}
			defer func() { <-sem }()
			prev := ""
			for attempt := 0; attempt < MaxAttempts; attempt++ {
				out := filepath.Join(dir, fmt.Sprintf("out.%d.%d", b, attempt))
				prog := filepath.Join(dir, fmt.Sprintf("prog.%d.%d", b, attempt))
				errf := filepath.Join(dir, fmt.Sprintf("err.%d.%d", b, attempt))
				ef, _ := os.Create(errf)
				ctx, cancel := context.WithCancel(context.Background())
				cmd := exec.CommandContext(ctx, os.Args[0])
				cmd.Env = append(os.Environ(), "KIDS_BATCH="+strconv.Itoa(b), "KIDS_OUT="+out, "KIDS_PROGRESS="+prog, "KIDS_PREV="+prev)
				cmd.Stdout = ef
				cmd.Stderr = ef
				timedOut := false
				err := cmd.Start()
				if err == nil {
					done := make(chan error, 1)
					go func() { done <- cmd.Wait() }()
					select {
					case err = <-done:
					case <-time.After(timeout):
						timedOut = true
						cmd.Process.Signal(syscall.SIGQUIT)
						select {
						case err = <-done:
						case <-time.After(20 * time.Second):
							cmd.Process.Kill()
							err = <-done
						}
					}
				}
				cancel()
				ef.Close()
				mu.Lock()
				merge(rep, out, &tot)
				mu.Unlock()
				if err == nil {
					return
				}
				eb, _ := os.ReadFile(errf)
				cr := Crash{Batch: b, InFlight: inFlight(prog), Stderr: tail(string(eb), 24000), TimedOut: timedOut}
				if ee, ok := err.(*exec.ExitError); ok {
					cr.ExitCode = ee.ExitCode()
					if ws, ok := ee.Sys().(syscall.WaitStatus); ok && ws.Signaled() {
						cr.Signal = ws.Signal().String()
					}
				} else {
					cr.ExitCode = -1
					cr.Headline = "cannot start child: " + err.Error()
				}
				if h, fr := parseCrash(string(eb)); h != "" {
					cr.Headline, cr.Frames = h, fr
				}
				mu.Lock()
				tot.Crashes = append(tot.Crashes, cr)
				mu.Unlock()
				if timedOut {
					return
				}
				// merge progress of both attempts for the retry's skip list
				if prev != "" {
					pb, _ := os.ReadFile(prev)
					f, _ := os.OpenFile(prog, os.O_APPEND|os.O_WRONLY, 0o644)
					if f != nil {
						f.Write(pb)
						f.Close()
					}
				}
				prev = prog
			}
		}(b)
	}
	wg.Wait()
	return tot
}

func merge(rep *ev.Reporter, path string, tot *Totals) {
	f, err := os.Open(path)
	if err != nil {
		return
	}
	defer f.Close()
	sc := bufio.NewScanner(f)
	sc.Buffer(make([]byte, 1<<20), 64<<20)
	for sc.Scan() {
		var l line
		if json.Unmarshal(sc.Bytes(), &l) != nil {
			continue // a torn last line of a crashed child
		}
		switch l.K {
		case "count":
			rep.Count(l.Key, l.N)
		case "max":
			if l.N > tot.Max[l.Key] {
				tot.Max[l.Key] = l.N
			}
		case "distinct":
			rep.Distinct(l.Key, l.Member)
		case "violate":
			rep.Violate(l.Key, l.Detail)
		case "sample":
			rep.Sample(l.Detail)
		case "inconclusive":
			rep.Inconclusive(l.Key)
		case "eval":
			tot.Evals += l.N
		}
	}
}

// HasTargetFrame reports whether a crash stack has a frame of gqlgen, generated code or gqlparser,
// and returns the innermost such function (short form).
func (c Crash) HasTargetFrame() (string, bool) {
	for _, f := range c.Frames {
		if strings.Contains(f, "github.com/99designs/gqlgen") || strings.Contains(f, "verif/work/farm/") || strings.Contains(f, "github.com/vektah/gqlparser") {
			if j := strings.LastIndex(f, "/"); j >= 0 {
				f = f[j+1:]
			}
			return f, true
		}
	}
	return "", false
}
