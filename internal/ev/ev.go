// Package ev is the shared verdict / evidence / known-findings plumbing of every check.
package ev

import (
	"bufio"
	"crypto/sha256"
	"encoding/hex"
	"encoding/json"
	"fmt"
	"os"
	"path/filepath"
	"sort"
	"strconv"
	"strings"
	"sync"
	"time"
)

// Root is the verification tree (VERIF_ROOT overrides it for isolated scratch copies).
var Root = func() string {
	if v := os.Getenv("VERIF_ROOT"); v != "" {
		return v
	}
	return "/verif"
}()

// Repo is the repository under verification (VERIF_REPO overrides it for scratch copies).
var Repo = func() string {
	if v := os.Getenv("VERIF_REPO"); v != "" {
		return v
	}
	return "/repo"
}()

func Tier() string {
	if t := os.Getenv("VERIF_TIER"); t == "thorough" {
		return "thorough"
	}
	return "quick"
}

func Seed() int64 {
	if s := os.Getenv("VERIF_SEED"); s != "" {
		if n, err := strconv.ParseInt(s, 10, 64); err == nil {
			return n
		}
	}
	return 1
}

// Pick returns q on the quick tier and t on the thorough tier.
func Pick(q, t int) int {
	if Tier() == "thorough" {
		return t
	}
	return q
}

type Finding struct {
	Property string
	Sig      string
	Text     string
	Fixed    bool
}

// LoadKnown reads /verif/known_findings.txt (committed; never written at run time).
// Lines: "finding: property=<id> sig=<signature> <what fails>"
//
//	"fixed: property=<id> <commit> <what failed>"   (suppresses nothing)
func LoadKnown() []Finding {
	f, err := os.Open(filepath.Join(Root, "known_findings.txt"))
	if err != nil {
		return nil
	}
	defer f.Close()
	var out []Finding
	sc := bufio.NewScanner(f)
	for sc.Scan() {
		line := strings.TrimSpace(sc.Text())
		if line == "" || strings.HasPrefix(line, "#") {
			continue
		}
		var fd Finding
		switch {
		case strings.HasPrefix(line, "finding:"):
			line = strings.TrimSpace(strings.TrimPrefix(line, "finding:"))
		case strings.HasPrefix(line, "fixed:"):
			fd.Fixed = true
			line = strings.TrimSpace(strings.TrimPrefix(line, "fixed:"))
		default:
			continue
		}
		fs := strings.Fields(line)
		rest := []string{}
		for _, w := range fs {
			switch {
			case strings.HasPrefix(w, "property=") && fd.Property == "":
				fd.Property = strings.TrimPrefix(w, "property=")
			case strings.HasPrefix(w, "sig=") && fd.Sig == "":
				fd.Sig = strings.TrimPrefix(w, "sig=")
			default:
				rest = append(rest, w)
			}
		}
		fd.Text = strings.Join(rest, " ")
		out = append(out, fd)
	}
	return out
}

type Reporter struct {
	Prop        string
	Level       string
	Rule        string
	Assumptions []string
	start       time.Time
	mu          sync.Mutex
	counts      map[string]int64
	distinct    map[string]map[string]struct{}
	samples     []any
	maxSamples  int
	extra       map[string]any
	violations  int
	printedKF   map[string]bool
	known       []Finding
	inconcl     []string
	violSigs    map[string]int
	exhaustive  *bool
}

func New(prop, level string) *Reporter {
	return &Reporter{Prop: prop, Level: level, start: time.Now(), counts: map[string]int64{},
		distinct: map[string]map[string]struct{}{}, maxSamples: 5, extra: map[string]any{},
		printedKF: map[string]bool{}, known: LoadKnown(), violSigs: map[string]int{}}
}

func (r *Reporter) Count(key string, n int64) {
	r.mu.Lock()
	r.counts[key] += n
	r.mu.Unlock()
}

func (r *Reporter) Get(key string) int64 {
	r.mu.Lock()
	defer r.mu.Unlock()
	return r.counts[key]
}

// Distinct records a member of a named set; the set sizes are reported as distinct_<name>.
func (r *Reporter) Distinct(set, member string) {
	r.mu.Lock()
	m := r.distinct[set]
	if m == nil {
		m = map[string]struct{}{}
		r.distinct[set] = m
	}
	if len(member) > 64 {
		h := sha256.Sum256([]byte(member))
		member = hex.EncodeToString(h[:12])
	}
	m[member] = struct{}{}
	r.mu.Unlock()
}

func (r *Reporter) DistinctLen(set string) int {
	r.mu.Lock()
	defer r.mu.Unlock()
	return len(r.distinct[set])
}

func (r *Reporter) Sample(s any) {
	r.mu.Lock()
	if len(r.samples) < r.maxSamples {
		r.samples = append(r.samples, s)
	}
	r.mu.Unlock()
}

func (r *Reporter) Set(key string, v any) {
	r.mu.Lock()
	r.extra[key] = v
	r.mu.Unlock()
}

func (r *Reporter) Exhaustive(b bool) { r.exhaustive = &b }

// Inconclusive records a reason the run cannot give a verdict (exit 2, no VIOLATION line).
func (r *Reporter) Inconclusive(reason string) {
	r.mu.Lock()
	r.inconcl = append(r.inconcl, reason)
	r.mu.Unlock()
	fmt.Printf("INCONCLUSIVE property=%s %s\n", r.Prop, reason)
}

// Violate reports a refuting observation. sig is the signature of the failing case; when it is
// listed as a known finding for this property, a KNOWN-FINDING line is printed instead (once per
// signature) and the run does not fail. detail is saved as the replay file.
func (r *Reporter) Violate(sig string, detail any) {
	r.mu.Lock()
	defer r.mu.Unlock()
	if sig != "" {
		for _, k := range r.known {
			if !k.Fixed && k.Property == r.Prop && k.Sig == sig {
				r.counts["known_finding_hits:"+sig]++
				if !r.printedKF[sig] {
					r.printedKF[sig] = true
					fmt.Printf("KNOWN-FINDING: property=%s sig=%s %s\n", r.Prop, sig, k.Text)
				}
				return
			}
		}
	}
	r.violations++
	r.violSigs[sig]++
	if r.violSigs[sig] > 3 { // do not flood: three replays per signature are enough
		return
	}
	b, _ := json.MarshalIndent(map[string]any{"property": r.Prop, "signature": sig, "tier": Tier(), "seed": Seed(), "detail": detail}, "", " ")
	h := sha256.Sum256(b)
	os.MkdirAll(filepath.Join(Root, "replays"), 0o755)
	p := filepath.Join(Root, "replays", fmt.Sprintf("%s-%s.json", r.Prop, hex.EncodeToString(h[:6])))
	os.WriteFile(p, b, 0o644)
	fmt.Printf("VIOLATION property=%s replay=%s\n", r.Prop, p)
	if sig != "" {
		fmt.Printf("  signature: %s\n", sig)
	}
}

func (r *Reporter) Violations() int {
	r.mu.Lock()
	defer r.mu.Unlock()
	return r.violations
}

// Finish writes the evidence file and returns the process exit code.
// evaluations / distinctNontrivial are the two mandatory measured counters.
func (r *Reporter) Finish(evaluations, distinctNontrivial int64) int {
	r.mu.Lock()
	defer r.mu.Unlock()
	cov := map[string]any{
		"evaluations":         evaluations,
		"distinct_nontrivial": distinctNontrivial,
		"rule":                r.Rule,
		"samples":             r.samples,
	}
	if r.samples == nil {
		cov["samples"] = []any{}
	}
	if r.exhaustive != nil {
		cov["exhaustive"] = *r.exhaustive
	}
	keys := make([]string, 0, len(r.counts))
	for k := range r.counts {
		keys = append(keys, k)
	}
	sort.Strings(keys)
	counters := map[string]int64{}
	for _, k := range keys {
		counters[k] = r.counts[k]
	}
	cov["counters"] = counters
	for s, m := range r.distinct {
		cov["distinct_"+s] = len(m)
	}
	for k, v := range r.extra {
		cov[k] = v
	}
	var kf []string
	for s := range r.printedKF {
		kf = append(kf, s)
	}
	sort.Strings(kf)
	cov["known_findings_matched"] = kf
	if len(r.inconcl) > 0 {
		cov["inconclusive"] = r.inconcl
	}
	e := map[string]any{
		"property_id": r.Prop,
		"tier":        Tier(),
		"seed":        Seed(),
		"level":       r.Level,
		"coverage":    cov,
		"assumptions": r.Assumptions,
		"wall_s":      time.Since(r.start).Seconds(),
		"violations":  r.violations,
	}
	if r.Assumptions == nil {
		e["assumptions"] = []string{}
	}
	b, _ := json.MarshalIndent(e, "", " ")
	os.MkdirAll(filepath.Join(Root, "evidence"), 0o755)
	if err := os.WriteFile(filepath.Join(Root, "evidence", r.Prop+".json"), b, 0o644); err != nil {
		fmt.Println("cannot write evidence:", err)
		return 2
	}
	fmt.Printf("%s tier=%s seed=%d evaluations=%d distinct_nontrivial=%d violations=%d wall=%.1fs\n",
		r.Prop, Tier(), Seed(), evaluations, distinctNontrivial, r.violations, time.Since(r.start).Seconds())
	if r.violations > 0 {
		return 1
	}
	if len(r.inconcl) > 0 {
		return 2
	}
	if evaluations < 1 || distinctNontrivial < 2 {
		fmt.Printf("INCONCLUSIVE property=%s observed too little (evaluations=%d distinct_nontrivial=%d)\n", r.Prop, evaluations, distinctNontrivial)
		return 2
	}
	return 0
}
