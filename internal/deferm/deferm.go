// Package deferm is the incremental-delivery client model shared by C13 and C04: it applies the
// payloads of a @defer response in arrival order and judges them against the plain result.
package deferm

import (
	"fmt"
	"strings"

	"verif/internal/drive"
	"verif/internal/ref"
	"verif/internal/sjson"
)

type Info struct {
	Incremental, NullGroups, Nested, InLists, Labelled, IncErrors, UnderNulled int
	Strict                                                                     bool
	Order                                                                      string
}

func Describe(got *drive.Real) []map[string]any {
	var out []map[string]any
	for _, p := range got.Payloads {
		m := map[string]any{"data": string(p.Raw), "path": p.Path, "label": p.Label, "errors": p.Errors}
		if p.HasNext != nil {
			m["hasNext"] = *p.HasNext
		}
		out = append(out, m)
	}
	return out
}

func pathKey(p []any) string {
	var sb strings.Builder
	for _, e := range p {
		fmt.Fprintf(&sb, "/%v", e)
	}
	return sb.String()
}

// judge applies the client model. It returns a known-finding signature (or ""), a violation text
// (or ""), and observation counters.
func Judge(want *ref.Result, got *drive.Real) (string, string, Info) {
	var in Info
	nulledSig, nulledWhy := "", ""
	if len(got.Payloads) == 0 {
		return "", "no payload at all", in
	}
	first := got.Payloads[0]
	if !first.ParseOK || first.Data == nil {
		return "", "initial payload has no valid data", in
	}
	merged := first.Data
	allErrs := append([]ref.ErrExp{}, first.Errors...)
	seen := map[string]bool{}
	delivered := map[string]bool{} // paths of groups already delivered (object paths)
	var nullGroupPaths []string
	var unresolved []int
	n := len(got.Payloads)
	var orderSB strings.Builder
	for i, p := range got.Payloads {
		// hasNext discipline
		if n > 1 {
			if p.HasNext == nil {
				return "", fmt.Sprintf("payload %d of %d carries no hasNext", i, n), in
			}
			if i < n-1 && !*p.HasNext {
				return "", fmt.Sprintf("hasNext is false on non-final payload %d of %d", i, n), in
			}
			if i == n-1 && *p.HasNext {
				return "", "hasNext is true on the final payload", in
			}
		} else if p.HasNext != nil && *p.HasNext {
			return "", "single payload with hasNext true", in
		}
		if i == 0 {
			continue
		}
		in.Incremental++
		if !p.ParseOK {
			return "", fmt.Sprintf("incremental payload %d is not valid JSON", i), in
		}
		k := pathKey(p.Path) + "|" + p.Label
		orderSB.WriteString(k + ";")
		if seen[k] {
			return "", "deferred group delivered twice: path " + pathKey(p.Path) + " label " + p.Label, in
		}
		seen[k] = true
		if p.Label != "" {
			in.Labelled++
		}
		for _, e := range p.Path {
			if _, ok := e.(int); ok {
				in.InLists++
				break
			}
		}
		for d := range delivered {
			if strings.HasPrefix(pathKey(p.Path), d+"/") {
				in.Nested++
				break
			}
		}
		in.IncErrors += len(p.Errors)
		allErrs = append(allErrs, p.Errors...)
		// the path must resolve to a non-null object in what the client has so far
		target := resolve(merged, p.Path)
		if target == nil || target.Kind != sjson.Object {
			unresolved = append(unresolved, i)
			continue
		}
		delivered[pathKey(p.Path)] = true
		if p.Data == nil || p.Data.Kind == sjson.Null {
			in.NullGroups++
			nullGroupPaths = append(nullGroupPaths, pathKey(p.Path))
			continue
		}
		if p.Data.Kind != sjson.Object {
			return "", fmt.Sprintf("incremental payload %d data is neither an object nor null", i), in
		}
		for _, m := range p.Data.Members {
			setMember(target, m.Key, m.Val)
		}
	}
	in.Order = orderSB.String()
	// payloads whose path could not be found when they arrived
	for _, i := range unresolved {
		p := got.Payloads[i]
		if t := resolve(merged, p.Path); t != nil && t.Kind == sjson.Object {
			return "nested-deferred-group-before-parent", fmt.Sprintf("incremental payload %d (path %s, label %q) arrived before the payload that delivers its object", i, pathKey(p.Path), p.Label), in
		}
		// the object never reaches the client: an ancestor was removed by null propagation after
		// the group had been started
		if nullAncestor(merged, p.Path) {
			// Which failure removed the object? When every error of the initial payload that lies under
			// the nulled position also lies under the group's own object, the object itself was invalid
			// (a non-deferred field of it failed): its groups must never have been started. That is a
			// different defect from the recorded one (object valid when the group started, an ancestor
			// nulled later by a failure elsewhere), so it is not reported under that signature.
			if ownFailure(merged, p.Path, first.Errors) {
				return "", fmt.Sprintf("incremental payload %d (path %s, label %q) was produced for an object that is null in the response because of a failure inside that object itself (non-deferred part): its deferred groups must not be started", i, pathKey(p.Path), p.Label), in
			}
			in.UnderNulled++
			nulledSig = "deferred-group-delivered-under-nulled-ancestor"
			nulledWhy = fmt.Sprintf("incremental payload %d (path %s, label %q) belongs to an object that null propagation removed from the response: a client can never find its path", i, pathKey(p.Path), p.Label)
			continue
		}
		return "", fmt.Sprintf("incremental payload %d (path %s, label %q): path does not resolve to an object in the merged data", i, pathKey(p.Path), p.Label), in
	}
	// no error that the plain execution would not report; errors the plain execution reports but the
	// deferred execution does not must lie in a part of the response that is null for the client
	if why := errorsSubset(want.Errors, want.LateDropped, allErrs, merged, got.Payloads); why != "" {
		return "", why, in
	}
	if len(nullGroupPaths) == 0 {
		in.Strict = true
		if d := sjson.Diff(want.Data, merged, true, "data"); d != "" {
			return "", "merged result differs from the plain result: " + d, in
		}
		return nulledSig, nulledWhy, in
	}
	if d := refines(want.Data, merged, "", nullGroupPaths); d != "" {
		return "", "merged result is not explained by the plain result plus null propagation stopping at a deferred group's object: " + d, in
	}
	return nulledSig, nulledWhy, in
}

// ownFailure: path is under a null of root; do all initial errors under that null lie under path itself?
func ownFailure(root *sjson.Value, path []any, errs []ref.ErrExp) bool {
	nullAt := 0
	for l := 1; l <= len(path); l++ {
		if v := resolve(root, path[:l]); v != nil && v.Kind == sjson.Null {
			nullAt = l
			break
		}
	}
	if root == nil || root.Kind == sjson.Null {
		nullAt = 0
	}
	n := 0
	for _, e := range errs {
		ep := parsePath(e.Path)
		if !under(ep, path[:nullAt]) {
			continue
		}
		n++
		if !(under(ep, path) && len(ep) > len(path)) {
			return false
		}
	}
	return n > 0
}

func under(p, prefix []any) bool {
	if len(p) < len(prefix) {
		return false
	}
	for i := range prefix {
		if fmt.Sprint(p[i]) != fmt.Sprint(prefix[i]) {
			return false
		}
	}
	return true
}

// nullAncestor reports whether some proper prefix of path resolves to null in root.
func nullAncestor(root *sjson.Value, path []any) bool {
	if root == nil || root.Kind == sjson.Null {
		return true
	}
	for l := 1; l <= len(path); l++ {
		v := resolve(root, path[:l])
		if v != nil && v.Kind == sjson.Null {
			return true
		}
		if v == nil {
			return false
		}
	}
	return false
}

// errorsSubset: every reported error is one the plain execution reports (multiset); every error the
// plain execution reports that is missing lies under a null of the merged data.
//
// The second allowance exists because a group that is never delivered leaves the null the initial
// payload holds for its fields. It does not extend to a position that an incremental payload which
// DID arrive delivers: that payload computed the position, so the failure of it belongs to its
// errors (a failure raised only while the payload is written must not get lost).
func errorsSubset(plain, lateDropped, got []ref.ErrExp, merged *sjson.Value, payloads []*drive.Payload) string {
	late := map[string]int{}
	for _, e := range lateDropped {
		late[e.String()]++
	}
	count := map[string]int{}
	for _, e := range plain {
		count[e.String()]++
	}
	for _, e := range got {
		if count[e.String()] == 0 {
			// a failure raised only while a payload is written, at a position the plain execution
			// never writes (removed by null propagation there; @defer stops propagation earlier)
			if late[e.String()] > 0 {
				late[e.String()]--
				continue
			}
			return "an error is reported that the plain execution does not report: " + e.String()
		}
		count[e.String()]--
	}
	for _, e := range plain {
		if count[e.String()] > 0 {
			count[e.String()]--
			pp := parsePath(e.Path)
			if !nullAncestor(merged, pp) {
				return "an error of the plain execution is missing although its position is not inside a null part of the merged result: " + e.String()
			}
			for i, pl := range payloads {
				if i == 0 || pl.Data == nil || pl.Data.Kind != sjson.Object || len(pp) <= len(pl.Path) || !under(pp, pl.Path) {
					continue
				}
				if v := resolve(pl.Data, pp[len(pl.Path):]); v != nil && resolve(merged, pp) != nil {
					return fmt.Sprintf("an error of the plain execution is missing although incremental payload %d (path %s) delivers its position: %s", i, pathKey(pl.Path), e.String())
				}
			}
		}
	}
	return ""
}

// parsePath turns "a.b[0].c" back into path elements.
func parsePath(s string) []any {
	var out []any
	cur := ""
	flush := func() {
		if cur != "" {
			out = append(out, cur)
			cur = ""
		}
	}
	for i := 0; i < len(s); i++ {
		switch s[i] {
		case '.':
			flush()
		case '[':
			flush()
			j := strings.IndexByte(s[i:], ']')
			if j < 0 {
				return out
			}
			n := 0
			fmt.Sscanf(s[i+1:i+j], "%d", &n)
			out = append(out, n)
			i += j
		default:
			cur += string(s[i])
		}
	}
	flush()
	return out
}

func resolve(root *sjson.Value, path []any) *sjson.Value {
	cur := root
	for _, e := range path {
		if cur == nil {
			return nil
		}
		switch v := e.(type) {
		case string:
			cur = cur.Get(v)
		case int:
			if cur.Kind != sjson.Array || v < 0 || v >= len(cur.Arr) {
				return nil
			}
			cur = cur.Arr[v]
		}
	}
	return cur
}

func setMember(obj *sjson.Value, key string, val *sjson.Value) {
	for i := range obj.Members {
		if obj.Members[i].Key == key {
			obj.Members[i].Val = val
			return
		}
	}
	obj.Members = append(obj.Members, sjson.Member{Key: key, Val: val})
}

// refines checks merged m against plain p: wherever p is non-null, m must agree; where p is null,
// m may be null, or non-null provided a null-delivered group lives at or below that position.
func refines(p, m *sjson.Value, at string, nullGroups []string) string {
	if p == nil || m == nil {
		if p == m {
			return ""
		}
		return at + ": member present on one side only"
	}
	if p.Kind == sjson.Null {
		if m.Kind == sjson.Null {
			return ""
		}
		for _, g := range nullGroups {
			if g == at || strings.HasPrefix(g, at+"/") || (at == "" && true) {
				if g == at || strings.HasPrefix(g, at+"/") {
					return ""
				}
			}
		}
		return at + ": plain result is null but the merged result has a value, and no null-delivered group explains it"
	}
	if m.Kind == sjson.Null {
		// a placeholder of a null-delivered group directly at the parent is legitimate
		parent := at
		if i := strings.LastIndex(parent, "/"); i >= 0 {
			parent = parent[:i]
		}
		for _, g := range nullGroups {
			if g == parent {
				return ""
			}
		}
		return at + ": plain result has a value but the merged result is null"
	}
	if p.Kind != m.Kind {
		return at + ": kinds differ"
	}
	switch p.Kind {
	case sjson.Array:
		if len(p.Arr) != len(m.Arr) {
			return at + ": list lengths differ"
		}
		for i := range p.Arr {
			if d := refines(p.Arr[i], m.Arr[i], fmt.Sprintf("%s/%d", at, i), nullGroups); d != "" {
				return d
			}
		}
	case sjson.Object:
		if len(p.Members) != len(m.Members) {
			return at + ": member counts differ"
		}
		for i := range p.Members {
			if p.Members[i].Key != m.Members[i].Key {
				return at + ": member order differs"
			}
			if d := refines(p.Members[i].Val, m.Members[i].Val, at+"/"+p.Members[i].Key, nullGroups); d != "" {
				return d
			}
		}
	default:
		if d := sjson.Diff(p, m, true, at); d != "" {
			return d
		}
	}
	return ""
}
